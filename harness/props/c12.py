"""
C12 — linear and logarithmic probability spaces agree.

A  theorems in Props/C12 (streaming log-sum-exp = log of the sum, combine/ratio conventions incl.
   -inf - -inf -> -inf <-> 0/0 -> 0, log-space passes are the image of the linear passes).
B  correspondence: the *same* Lean pass definitions instantiated with `logOps` (Float) against the real
   LogLikelihoods run, and with `linOps` against the real Likelihoods run, on the implementation's own tables;
   plus model(log) vs model(lin) through exp.
C  oracle: public API inside_outside and maximization in both spaces on the same input; posteriors, posterior
   means/variances, returned node times and marginal likelihood compared (tolerance 1e-9); inputs on which the
   linear computation under- or overflows are excluded and counted (the property's own escape clause).
"""

import numpy as np

from .. import common, discrete_corr as dc
from ..common import Result, Violation, f2h

META = dict(
    level='Lean theorems: the one-pass running-maximum logsumexp returns log(sum exp x_i) for every list (loop invariant r*exp(alpha)=sum, -inf handled), result is -inf iff all inputs are; log-space combine/ratio are the images of linear */ /, and the div_0_null conventions (-inf - -inf -> -inf, 0/0 -> 0) correspond; pass_log_eq_lin: every inside row, denominator, cached message, the marginal likelihood and every outside row of the log-space run map under exp to those of the linear run on the exp-image input (all inputs, multi-tree included, both standardise options, ignore_oldest_root), under guards evaluated on the linear run (span fractions positive, no zero denominator/standardiser, 0/0 the only division by zero); laws of exp/log/pow are hypotheses discharged for the reals with -inf adjoined. Partial: the maximization pass is not in the model (argmax under a monotone map; covered by the cross-space oracle only). The generic pass definitions are executed at Float with logOps and linOps against the real LogLikelihoods/Likelihoods runs; public API compared across spaces on underflow-guarded inputs (inside_outside and maximization).',
    note='Lean kernel + {propext, Classical.choice, Quot.sound}; exact arithmetic: IEEE under/overflow excluded by the property itself; libm exp/log trusted within tolerance 1e-9',
    technique='loop invariant + homomorphism of operation records (log space = image of linear space under exp) + correspondence at Float',
    ref='§3 C12',
)
LEAN_PROPS = ["TsdateVerif.Props.C12"]
LEAN_BUILD = ["TsdateVerif.Model.Proto", "TsdateVerif.Model.Discrete"]
ASSUMPTIONS = [
    "exp/log laws are hypotheses of the theorems (LogLaws), instantiated by Real.exp/Real.log on the reals with -inf adjoined",
    "cases whose linear-space run under/overflows (np.errstate raise, or a positive value below 1e-250) are excluded, as the property states",
    "maximization is compared up to numerically tied scores (relative gap below 1e-9)",
    "shared-prior sequences (log->lin, lin->log, log->log->lin) are run on a subset of the inputs (12 quick / 150 thorough)",
]
RTOL = 1e-9
TINY = 1e-250


def linear_guard(ts, priors, mu, eps):
    """Run the linear passes under np.errstate(under='raise', over='raise'); returns (ok, reason, record)."""
    pr = dc.clone_priors(priors)
    try:
        with np.errstate(under="raise", over="raise"):
            import tsdate.discrete as discrete
            fixed = set(int(s) for s in ts.samples())
            lik = discrete.Likelihoods(ts, pr.timepoints, mu, eps=eps, fixed_node_set=fixed)
            lik.precalculate_mutation_likelihoods()
            bp = discrete.BeliefPropagation(pr, lik)
            with np.errstate(divide="ignore", invalid="ignore"):
                bp.inside_pass()
                bp.outside_pass(standardize=True)
    except FloatingPointError as e:
        return False, "fp-exception:" + str(e)[:40]
    except BaseException as e:  # noqa: BLE001   (tsdate rejects the input: data, not a C12 matter)
        if isinstance(e, (KeyboardInterrupt, MemoryError)):
            raise
        return False, f"rejected:{type(e).__name__}:{str(e)[:40]}"
    vals = np.concatenate([bp.inside.grid_data.ravel(), bp.outside.grid_data.ravel(),
                           np.array([bp.denominator[u] for u in pr.nonfixed_nodes])] +
                          [np.asarray(v).ravel() for v in lik.unfixed_likelihood_cache.values()])
    pos = vals[vals > 0]
    if pos.size and pos.min() < TINY:
        return False, "tiny-positive-value"
    if not np.all(np.isfinite(vals)):
        return False, "non-finite"
    return True, ""


def api_run(ts, priors, mu, eps, space, method, kw, shared=False):
    """shared=False: a fresh copy of the prior object per call; shared=True: the caller's object itself
    (tsdate converts it in place, so later calls see what earlier calls left behind)."""
    import tsdate
    from .. import dating
    dating.quiet()
    pr = priors if shared else dc.clone_priors(priors)
    f = tsdate.inside_outside if method == "inside_outside" else tsdate.maximization
    try:
        out = f(ts, mutation_rate=mu, priors=pr, eps=eps, probability_space=space, return_fit=True,
                return_likelihood=True, progress=False, **kw)
    except BaseException as e:  # noqa: BLE001
        if isinstance(e, (KeyboardInterrupt, MemoryError)):
            raise
        return dict(ok=False, exc=type(e).__name__, msg=str(e)[:200])
    dts, fit, lik = out
    rec = dict(ok=True, times=np.array(dts.nodes_time), lik=float(lik), fit=fit)
    if method == "inside_outside":
        G = len(priors.timepoints)
        rec["post"] = np.array(fit.node_posteriors().tolist(), dtype=float).reshape(ts.num_nodes, G)
        rec["meta"] = [(n.metadata.get("mn"), n.metadata.get("vr")) if isinstance(n.metadata, dict) else None for n in dts.nodes()]
    else:
        rec["mean"] = np.array(fit.posterior_mean)
    return rec


def max_tie(fit, ts, mu, eps, node, assigned):
    """Is the maximization choice at `node` numerically tied?  Recomputes the documented objective in linear
    space from the linear fit: inside[node][t] * prod_edges pmf(m_e; (tp[par] - tp[t] + eps) mu span)/max, t <= min parent index."""
    import scipy.stats
    tp = fit.lik.timepoints
    idx = {float(t): i for i, t in enumerate(tp)}
    par = [(e, idx[float(assigned[e.parent])]) for e in ts.edges() if e.child == node]
    if not par:
        obj = np.array(fit.inside[node], dtype=float)
    else:
        lim = min(i for _, i in par)
        obj = np.array(fit.inside[node][:lim + 1], dtype=float)
        for e, i in par:
            ll = scipy.stats.poisson.pmf(fit.lik.mut_edges[e.id], (tp[i] - tp[:lim + 1] + eps) * mu * e.span)
            obj = obj * (ll / np.max(ll))
    s = np.sort(obj)[::-1]
    return len(s) > 1 and s[0] > 0 and (s[0] - s[1]) <= 1e-9 * s[0]


def compare_spaces(ts, priors, mu, eps, method, kw, replay, res, stats):
    a = api_run(ts, priors, mu, eps, dc.LIN, method, kw)
    b = api_run(ts, priors, mu, eps, dc.LOG, method, kw)
    if not a["ok"] or not b["ok"]:
        for r in (a, b):
            if not r["ok"]:
                stats["raised"][r["exc"]] = stats["raised"].get(r["exc"], 0) + 1
        if a["ok"] != b["ok"]:
            which = "logarithmic" if a["ok"] else "linear"
            r = b if a["ok"] else a
            res.violations.append(Violation(f"one-space-raises:{method}:{which}",
                                            f"{method} raised {r['exc']}: {r['msg']} only in {which} space", replay))
        return False
    ok = True
    if not dc.close(np.log(a["lik"]) if a["lik"] > 0 else -np.inf, b["lik"], rtol=0.0, atol=RTOL * max(1.0, abs(b["lik"]))):
        res.violations.append(Violation(f"marginal-likelihood-differs-between-spaces:{method}",
                                        f"log(linear likelihood) {np.log(a['lik'])!r} vs logarithmic {b['lik']!r}", replay))
        ok = False
    if method == "inside_outside":
        pa, pb = a["post"], b["post"]
        m = ~np.isnan(pa)
        if not np.allclose(pa[m], pb[m], rtol=RTOL, atol=1e-13) or not np.array_equal(np.isnan(pa), np.isnan(pb)):
            d = float(np.nanmax(np.abs(pa - pb)))
            res.violations.append(Violation("posterior-differs-between-spaces",
                                            f"node posteriors differ between spaces by up to {d:.3e}", replay))
            ok = False
        if not np.allclose(a["times"], b["times"], rtol=1e-8, atol=1e-9):
            d = float(np.max(np.abs(a["times"] - b["times"])))
            res.violations.append(Violation("node-times-differ-between-spaces:inside_outside",
                                            f"returned node times differ between spaces by up to {d:.3e}", replay))
            ok = False
        for u, (x, y) in enumerate(zip(a["meta"], b["meta"])):
            if x is None or y is None or x[0] is None or y[0] is None:
                continue
            if not (dc.close(x[0], y[0], rtol=1e-8, atol=1e-12) and dc.close(x[1], y[1], rtol=1e-7, atol=1e-12)):
                res.violations.append(Violation("metadata-differs-between-spaces",
                                                f"node {u} metadata (mn, vr) {x} vs {y}", replay))
                ok = False
                break
    else:
        ma, mb = a["mean"], b["mean"]
        diff = np.where(ma != mb)[0]
        if diff.size:
            # the first differing node in processing order decides: a numerical tie is allowed
            order = sorted(diff, key=lambda u: -ts.nodes_time[u])
            u = int(order[0])
            if max_tie(a["fit"], ts, mu, eps, u, ma):
                stats["maximization_ties"] += 1
            else:
                res.violations.append(Violation("maximization-differs-between-spaces",
                                                f"node {u}: timepoint {ma[u]!r} (linear) vs {mb[u]!r} (logarithmic), scores not tied",
                                                replay))
                ok = False
    return ok


SEQUENCES = [(dc.LOG, dc.LIN), (dc.LIN, dc.LOG), (dc.LOG, dc.LOG, dc.LIN)]
TAG = {dc.LIN: "lin", dc.LOG: "log"}


def same_result(a, b, method):
    if method == "inside_outside":
        pa, pb = a["post"], b["post"]
        return (np.array_equal(np.isnan(pa), np.isnan(pb)) and np.allclose(pa[~np.isnan(pa)], pb[~np.isnan(pb)], rtol=RTOL, atol=1e-13)
                and np.allclose(a["times"], b["times"], rtol=1e-8, atol=1e-9) and dc.close(a["lik"], b["lik"], rtol=1e-9, atol=1e-9))
    return np.array_equal(a["mean"], b["mean"]) and dc.close(a["lik"], b["lik"], rtol=1e-9, atol=1e-9)


def sequence_oracle(ts, priors, mu, eps, replay_base, res, stats, seqrecs):
    """Runs on ONE shared prior object in several orders (log->linear, linear->log, log->log->linear), for
    inside_outside and maximization: every step must give what a fresh prior object gives in that space.
    Also records the object's probability_space tag and data after every step (for the model correspondence)."""
    for method in ("inside_outside", "maximization"):
        kw = dict(outside_standardize=True) if method == "inside_outside" else {}
        fresh = {sp: api_run(ts, priors, mu, eps, sp, method, kw) for sp in (dc.LIN, dc.LOG)}
        if not all(f["ok"] for f in fresh.values()):
            continue
        for seq in SEQUENCES:
            shared = dc.clone_priors(priors)
            rec = dict(tag0=TAG[shared.probability_space], grid0=shared.grid_data.copy(), seq=[TAG[x] for x in seq], steps=[])
            name = "->".join(TAG[x] for x in seq)
            stats["sequences"][name] = stats["sequences"].get(name, 0) + 1
            for k, sp in enumerate(seq):
                r = api_run(ts, shared, mu, eps, sp, method, kw, shared=True)
                rec["steps"].append((TAG.get(shared.probability_space, str(shared.probability_space)), shared.grid_data.copy()))
                replay = dict(replay_base, method=method, kw=kw, sequence=[TAG[x] for x in seq], step=k)
                if not r["ok"]:
                    res.violations.append(Violation(
                        f"shared-prior-sequence-raises:{method}:{name}",
                        f"{method} step {k} ({sp}) of sequence {name} on one shared prior object raised {r['exc']}: {r['msg']}; "
                        f"a fresh prior object gives a result (object tag after the step: {shared.probability_space})", replay))
                    break
                if not same_result(r, fresh[sp], method):
                    res.violations.append(Violation(
                        f"shared-prior-sequence-differs:{method}:{name}",
                        f"{method} step {k} ({sp}) of sequence {name} on one shared prior object differs from the fresh-prior result", replay))
                    break
            rec["replay"] = dict(replay_base, method=method, kw=kw, sequence=rec["seq"])
            seqrecs.append(rec)


def sequence_text(seqrecs):
    blocks = []
    for i, rec in enumerate(seqrecs):
        lines = [f"case {dc.EXTRA_BASE + i}", "op priorseq", f"tag {rec['tag0']}", f"nrows {rec['grid0'].shape[0]}"]
        for k, row in enumerate(rec["grid0"]):
            lines.append(f"row {k} " + " ".join(f2h(x) for x in row))
        lines.append("seq " + " ".join(rec["seq"]))
        lines.append("end")
        blocks.append("\n".join(lines) + "\n")
    return "".join(blocks)


def sequence_correspondence(seqrecs, res, stats, lines_by_id=None):
    """B: the prior object's tag and data after every run of a sequence vs the Lean state machine
    (`runSeq`: force_probability_space at the start of every run)."""
    if not seqrecs:
        return
    if lines_by_id is None:
        lines_by_id = {}
        dc.run_model([], sequence_text(seqrecs), lines_by_id)
    out = {k - dc.EXTRA_BASE: (ln.split(None, 1)[1] if len(ln.split()) > 1 else "") for k, ln in lines_by_id.items()}
    for i, rec in enumerate(seqrecs):
        stats["prior_state_checks"] += 1
        reply = out.get(i, "bad-op")
        if reply.strip() == "bad-op":
            res.corr_failures.append(Violation("prior-state-model-rejects", "Lean driver answered bad-op", rec["replay"], stage="B"))
            continue
        model_steps = [c.split() for c in reply.split(";")]
        for k, (tag, grid) in enumerate(rec["steps"]):
            if k >= len(model_steps):
                break
            mtag, mvals = model_steps[k][0], np.array([common.h2f(x) for x in model_steps[k][1:]])
            flat = grid.ravel()
            same_data = mvals.shape == flat.shape and all(
                (a == b) or (np.isnan(a) and np.isnan(b)) or abs(a - b) <= 1e-12 * max(1.0, abs(a), abs(b))
                for a, b in zip(flat, mvals))
            if tag != mtag or not same_data:
                res.corr_failures.append(Violation(
                    f"prior-object-state-differs:{'tag' if tag != mtag else 'data'}",
                    f"after step {k} of sequence {'->'.join(rec['seq'])} ({rec['replay']['method']}) the prior object is tagged "
                    f"{tag!r} in the implementation, {mtag!r} in the model (force_probability_space at the start of a run)",
                    dict(rec["replay"], step=k), stage="B"))
                break


def gen_input(rng, stats):
    import tsdate
    from .. import gen
    kind = str(rng.choice(["sim", "sim", "shape"]))
    if kind == "shape":
        k = int(rng.integers(2, 6))
        shapes = dc.tree_shapes(k)
        shape = shapes[int(rng.integers(0, len(shapes)))]
        kk, n, edges, _ = dc.shape_edges(shape)
        muts = [int(x) for x in rng.integers(0, 3, size=len(edges))]
        ts = dc.ts_from_shape(shape, muts, perm=[int(x) for x in rng.permutation(np.arange(kk, n))])
        G = int(rng.integers(3, 7))
        tp = np.concatenate([[0.0], np.cumsum(rng.uniform(0.2, 2.0, size=G - 1))])
        pk = str(rng.choice(["flat", "rand", "zero0", "sparse"]))
        rows = dc.random_prior_rows(rng, ts, G, pk)
        pr = dc.make_priors(ts, tp, rows)
        mu = float(rng.choice([5e-4, 1e-3, 3e-3]))
        desc = dict(gen="shape", shape=repr(shape), muts=muts, prior=pk, G=G)
    else:
        ts, info = gen.gen_ts(rng, n=int(rng.integers(2, 7)), trees=int(rng.choice([1, 2, 3, 5, 8])),
                              muts_per_edge=float(rng.choice([0.3, 1, 3])), polytomy=0.2)
        if ts.num_mutations == 0:
            return None
        try:
            pr = tsdate.build_prior_grid(ts, info["Ne"], timepoints=int(rng.integers(3, 9)),
                                         prior_distribution=str(rng.choice(["lognorm", "gamma"])))
        except BaseException as e:  # noqa: BLE001
            stats["prior_failed"][type(e).__name__] = stats["prior_failed"].get(type(e).__name__, 0) + 1
            return None
        mu = info["mu"]
        desc = dict(gen="sim", trees=ts.num_trees, nodes=ts.num_nodes, fired=info.get("fired"), G=len(pr.timepoints))
    eps = float(rng.choice([1e-8, 1e-6, 1e-3, 0.0]))
    return ts, pr, mu, eps, desc


def make_replay(ts, pr, mu, eps, method, kw):
    from .. import gen
    return dict(kind="spaces", ts=gen.ts_to_jsonable(ts), timepoints=[f2h(x) for x in pr.timepoints],
                nonfixed=[int(u) for u in pr.nonfixed_nodes], grid=[[f2h(x) for x in row] for row in pr.grid_data],
                mu=f2h(mu), eps=f2h(eps), method=method, kw=kw)


def priors_from_replay(d, ts):
    from tsdate.node_time_class import NodeTimeValues
    pr = NodeTimeValues(ts.num_nodes, np.array(d["nonfixed"], dtype=np.int32), np.array([common.h2f(x) for x in d["timepoints"]]))
    pr.grid_data = np.array([[common.h2f(x) for x in row] for row in d["grid"]])
    return pr


def new_stats():
    return dict(raised={}, prior_failed={}, guard_tripped={}, methods={}, gens={}, maximization_ties=0,
                trees={}, model_runs={}, compared=0, sequences={}, prior_state_checks=0, sequence_inputs=0)


def oracle(ctx, n_cases, stream, res, stats, recs=None, seqrecs=None, n_seq=0):
    rng = ctx.rng(stream)
    done = tries = 0
    while done < n_cases and tries < 6 * n_cases:
        tries += 1
        g = gen_input(rng, stats)
        if g is None:
            continue
        ts, pr, mu, eps, desc = g
        res.evaluations += 1
        ok, why = linear_guard(ts, pr, mu, eps)
        if not ok:
            stats["guard_tripped"][why] = stats["guard_tripped"].get(why, 0) + 1
            if why.startswith("rejected:"):
                # tsdate rejects the input in linear space: the only C12 question is whether log space agrees
                compare_spaces(ts, pr, mu, eps, "inside_outside", {}, make_replay(ts, pr, mu, eps, "inside_outside", {}),
                               res, stats)
            continue
        method = str(rng.choice(["inside_outside", "inside_outside", "maximization"]))
        kw = {}
        if method == "inside_outside":
            kw = dict(outside_standardize=bool(rng.random() < 0.7), cache_inside=bool(rng.random() < 0.5))
        replay = make_replay(ts, pr, mu, eps, method, kw)
        good = compare_spaces(ts, pr, mu, eps, method, kw, replay, res, stats)
        if seqrecs is not None and stats["sequence_inputs"] < n_seq:
            stats["sequence_inputs"] += 1
            sequence_oracle(ts, pr, mu, eps, dict(replay, kind="sequence"), res, stats, seqrecs)
        done += 1
        stats["compared"] += 1
        stats["methods"][method] = stats["methods"].get(method, 0) + 1
        stats["gens"][desc["gen"]] = stats["gens"].get(desc["gen"], 0) + 1
        stats["trees"][ts.num_trees] = stats["trees"].get(ts.num_trees, 0) + 1
        # non-trivial: the log-space run really used the -inf conventions or a multi-term logsumexp
        has_zero = bool(np.any(pr.grid_data == 0))
        if good and (has_zero or ts.num_mutations > 0):
            res.nontrivial.add(common.canon_key([replay["ts"], replay["grid"], replay["mu"], replay["eps"], method]))
        res.sample(dict(desc, method=method, eps=eps, mu=mu, kw=kw, prior_has_zero=has_zero))
        if recs is not None and len(recs) < 2 * n_cases:
            for space in (dc.LIN, dc.LOG):
                try:
                    r = dc.run_impl(ts, dc.clone_priors(pr), mu, eps, space, std_in=True, cache=False,
                                    std_out=bool(kw.get("outside_standardize", True)))
                    r["replay"] = replay
                    recs.append(r)
                except BaseException as e:  # noqa: BLE001
                    stats["raised"][type(e).__name__] = stats["raised"].get(type(e).__name__, 0) + 1


def correspondence(recs, res, stats, extra_text="", extra_out=None):
    """B: generic passes with logOps / linOps (Float) vs the real runs; and model(log) vs model(lin)."""
    cases = [(r, "float") for r in recs]
    outs = dc.run_model(cases, extra_text, extra_out)
    by_input = {}
    for (r, _), m in zip(cases, outs):
        stats["model_runs"][r["space"]] = stats["model_runs"].get(r["space"], 0) + 1
        if m is None:
            res.corr_failures.append(Violation("discrete-model-rejects-input", "Lean driver answered bad-op", r["replay"], stage="B"))
            continue
        bad = dc.compare(r, m, rtol=RTOL)
        if bad:
            f = bad[0]
            res.corr_failures.append(Violation(
                f"discrete-model-differs:{f[0]}:{r['space']}:float",
                f"{f[0]} of node {f[1]}[{f[2]}]: implementation {f[3]!r} vs Lean model {f[4]!r} ({r['space']})",
                r["replay"], stage="B"))
        by_input.setdefault(id(r["replay"]), {})[r["space"]] = (r, m)
    # model(log) vs model(lin): exp of the log-space rows equals the linear rows (what the theorem states)
    for pair in by_input.values():
        if len(pair) != 2:
            continue
        (rl, ml), (rg, mg) = pair[dc.LIN], pair[dc.LOG]
        for u in rl["nonfixed"]:
            for name in ("inside", "outside"):
                a = np.array(ml[name][u], dtype=float)
                b = np.exp(np.array(mg[name][u], dtype=float))
                if not np.allclose(a, b, rtol=1e-8, atol=1e-280):
                    res.corr_failures.append(Violation(
                        f"model-log-not-image-of-lin:{name}",
                        f"Lean model: exp(log-space {name}[{u}]) {b.tolist()} != linear {a.tolist()}", rl["replay"], stage="B"))
                    break


def run(ctx):
    res = Result()
    import tsdate  # noqa: F401
    stats = new_stats()
    recs, seqrecs = [], []
    oracle(ctx, ctx.n(100, 1500), 1, res, stats, recs, seqrecs, n_seq=ctx.n(12, 150))
    extra = {}
    correspondence(recs[: ctx.n(120, 600)], res, stats, sequence_text(seqrecs), extra)
    sequence_correspondence(seqrecs, res, stats, extra)
    res.rule = ("msprime-simulated inputs (2-6 samples, 1-8 trees, polytomies) with tsdate's own lognormal/gamma prior grids "
                "(3-8 quantiles), and random tree shapes with arbitrary non-negative prior rows (incl. zeros) on random grids; "
                "eps in {0,1e-8,1e-6,1e-3}; inside_outside (outside_standardize, cache_inside) and maximization run in both "
                "spaces through the public API and compared; linear runs that trip np.errstate(under/over='raise') or produce a "
                "positive value < 1e-250 are excluded and counted. Non-trivial = compared case with at least one mutation or a "
                "zero prior entry; distinct by canonical hash of (tables, prior grid, mu, eps, method).")
    res.extra = dict(input_distribution=stats)
    return res


def search(ctx):
    res = Result()
    stats = new_stats()
    oracle(ctx, ctx.n(20, 60), 3, res, stats, None, [], n_seq=ctx.n(5, 20))
    return res


def replay(ctx, payload):
    import tsdate  # noqa: F401
    from .. import gen
    d = payload["input"] if "input" in payload else payload.get("correspondence_input")
    ts = gen.ts_from_jsonable(d["ts"])
    pr = priors_from_replay(d, ts)
    mu, eps = common.h2f(d["mu"]), common.h2f(d["eps"])
    res, stats = Result(), new_stats()
    if d.get("kind") == "sequence" or "sequence" in d:
        seqrecs = []
        sequence_oracle(ts, pr, mu, eps, dict(d, kind="sequence"), res, stats, seqrecs)
        sequence_correspondence(seqrecs, res, stats)
        for rec in seqrecs:
            print(rec["replay"]["method"], "->".join(rec["seq"]), "object tag after each step:", [t for t, _ in rec["steps"]])
        for v in res.violations + res.corr_failures:
            print(v.stage, v.kind, "-", v.what)
        return not res.violations and not res.corr_failures
    print("guard:", linear_guard(ts, pr, mu, eps))
    for space in (dc.LIN, dc.LOG):
        a = api_run(ts, pr, mu, eps, space, d["method"], d["kw"])
        if a["ok"]:
            print(space, "likelihood", a["lik"], "times", a["times"].tolist())
            if "post" in a:
                print(space, "posteriors", a["post"].tolist())
        else:
            print(space, "raised", a["exc"], a["msg"])
    ok = compare_spaces(ts, pr, mu, eps, d["method"], d["kw"], d, res, stats)
    recs = []
    for space in (dc.LIN, dc.LOG):
        try:
            r = dc.run_impl(ts, dc.clone_priors(pr), mu, eps, space, std_in=True, cache=False,
                            std_out=bool(d["kw"].get("outside_standardize", True)))
            r["replay"] = d
            recs.append(r)
        except BaseException as e:  # noqa: BLE001
            print("run_impl raised", type(e).__name__, e)
    correspondence(recs, res, stats)
    for v in res.violations + res.corr_failures:
        print(v.stage, v.kind, "-", v.what)
    return ok and not res.violations and not res.corr_failures
