"""
C03 — sample times are kept, except for the minimal push above dated children.

A  Props/C03: fixed node without child edges keeps its input time (any rounding, any iteration count);
   fixed node with children ends at max(input, child output + eps) in exact arithmetic (all iteration
   counts) and at the `bumpWith` fold under arbitrary rounding (iters = 0); the least-squares sweep
   never moves a fixed node.
B  bit-exact correspondence numba `_constrain_ages` == Lean model, inputs rich in internal samples.
C  oracle on date() outputs for inputs with historical and ancestral (internal) samples.
"""

import numpy as np

from .. import common, constrain_corr as cc, dating, gen
from ..common import Result, Violation, f2h

META = dict(
    level='Lean theorems: a fixed (sample) node without child edges keeps its input time for every rounding and iteration count; the least-squares sweep never moves fixed nodes; with children it ends at max(input, child output + eps) (exact arithmetic, all iteration counts) / the bump fold (any rounding, iters=0). Tied bit-for-bit to numba; date() outputs with historical and ancestral samples checked.',
    note='as C01; that fit.node_moments returns ts times for samples is covered by the output oracle only',
    technique='sweep invariant (cavities of fixed endpoints are zero) + max-characterisation + bit-exact correspondence',
    ref='§3 C03',
)
LEAN_PROPS = ["TsdateVerif.Props.C03"]
LEAN_BUILD = ["TsdateVerif.Model.Proto"]
ASSUMPTIONS = ["sample flag == `fixed` in constrain_ages (read from ts.nodes_flags)",
               "node_moments / mean_var return ts.nodes_time for samples: checked by the oracle through the final output, not proved"]


def sample_oracle(ts, out_time, eps, tin=None):
    """C03 on an output time vector. Returns list of (kind, what)."""
    import tskit
    bad = []
    fixed = (ts.nodes_flags & tskit.NODE_IS_SAMPLE).astype(bool)
    ep, ec = ts.edges_parent, ts.edges_child
    parents = set(int(p) for p in ep)
    t_in = ts.nodes_time
    for s in np.where(fixed)[0]:
        if int(s) not in parents:
            if f2h(out_time[s]) != f2h(t_in[s]) and not (out_time[s] == t_in[s]):
                bad.append(("childless-sample-moved", f"sample {s} without children moved {t_in[s]!r} -> {out_time[s]!r}"))
        else:
            kids = np.unique(ec[ep == s])
            need = np.max(cc.fadd_np(out_time[kids], eps))
            want = max(t_in[s], need)
            if out_time[s] != want:
                bad.append(("ancestral-sample-not-minimal",
                            f"sample {s} with children: output {out_time[s]!r}, expected max(input {t_in[s]!r}, child+eps {need!r})"))
    return bad


def run(ctx):
    res = Result()
    import tsdate  # noqa: F401
    stats = dict(with_children=0, childless=0, pushed=0, raised={}, methods={}, fired={})
    # ---- B
    cases = [c for c in cc.make_cases(ctx, ctx.n(250, 5000), stream=11)]
    impl, fails = cc.correspondence(ctx, cases)
    res.corr_failures += fails
    for c, o in zip(cases, impl):
        if o is None:      # implementation raised: already reported as a correspondence failure
            res.evaluations += 1
            continue
        res.evaluations += 1
        parents = set(int(p) for p in c["ep"])
        fx = np.where(c["fixed"])[0]
        inner = [s for s in fx if int(s) in parents]
        if inner:
            res.nontrivial.add(common.canon_key(cc.case_replay(c)))
        # model theorem evaluated on the implementation: childless fixed nodes keep their bits
        for s in fx:
            if int(s) not in parents and not (o[s] == c["t"][s]):
                res.violations.append(Violation("childless-sample-moved",
                                                f"_constrain_ages moved fixed node {s} that has no child edge",
                                                cc.case_replay(c)))
                break
        if c["iters"] == 0 and cc.topo_ordered(c["ep"], c["ec"]):
            for s in inner:
                want = cc.bump_char(c["t"], o, c["ep"], c["ec"], c["eps"], s)
                if o[s] != want:
                    res.violations.append(Violation("ancestral-sample-not-minimal",
                                                    f"_constrain_ages: fixed node {s} ends at {o[s]!r}, bump characterisation gives {want!r}",
                                                    cc.case_replay(c)))
                    break
    # ---- C
    rng = ctx.rng(12)
    for _ in range(ctx.n(40, 800)):
        ts, info = gen.gen_ts(rng, historical=0.6, internal_samples=0.6, polytomy=0.1, extra_flags=0.4, n=int(rng.integers(3, 8)),
                              muts_per_edge=float(rng.choice([0.3, 1, 3])))
        if ts.num_mutations == 0:
            continue
        kw = dict(mutation_rate=info["mu"] * float(rng.choice([1, 1e-4, 1e4])))
        kw.update(dating.method_options(rng, "variational_gamma", info))
        if rng.random() < 0.5:
            kw["min_branch_length"] = float(rng.choice([1e-8, 1e-3, 1.0, 50.0]))
        if rng.random() < 0.5:
            kw["constr_iterations"] = int(rng.choice([0, 1, 10, 100]))
        eps = kw.get("min_branch_length", 1e-8)
        with dating.record_constrain() as rec:
            r = dating.run_date(ts, method="variational_gamma", **kw)
        res.evaluations += 1
        for f in info["fired"]:
            stats["fired"][f] = stats["fired"].get(f, 0) + 1
        if not r["ok"]:
            stats["raised"][r["exc"]] = stats["raised"].get(r["exc"], 0) + 1
            continue
        out = r["out"]
        bad = sample_oracle(ts, out.nodes_time, eps)
        replay = dict(kind="date", ts=gen.ts_to_jsonable(ts), method="variational_gamma", kw=kw)
        for kind, what in bad:
            res.violations.append(Violation(kind, what, replay))
        import tskit
        fixed = (ts.nodes_flags & tskit.NODE_IS_SAMPLE).astype(bool)
        parents = set(int(p) for p in ts.edges_parent)
        wc = [s for s in np.where(fixed)[0] if int(s) in parents]
        stats["with_children"] += len(wc)
        stats["childless"] += int(fixed.sum()) - len(wc)
        pushed = [s for s in wc if out.nodes_time[s] != ts.nodes_time[s]]
        stats["pushed"] += len(pushed)
        if wc:
            res.nontrivial.add(common.canon_key(replay))
        res.sample(dict(nodes=ts.num_nodes, samples_with_children=len(wc), pushed=len(pushed), kw={k: repr(v) for k, v in kw.items()}))
    res.rule = ("B: as C01 with extra internal fixed nodes; C: variational_gamma date() on inputs with historical and "
                "ancestral samples x min_branch_length x constr_iterations. Non-trivial = input has a sample with children.")
    res.extra = dict(input_distribution=stats)
    return res


def replay(ctx, payload):
    d = payload["input"] if "input" in payload else payload.get("correspondence_input")
    if d["kind"] == "constrain":
        c = cc.case_from_replay(d)
        impl, fails = cc.correspondence(ctx, [c])
        print("implementation:", [f2h(x) for x in impl[0]])
        print("model         :", "differs" if fails else "identical (bit-for-bit)")
        return not fails
    ts = gen.ts_from_jsonable(d["ts"])
    r = dating.run_date(ts, method=d["method"], **d["kw"])
    print("date():", "returned" if r["ok"] else f"raised {r['exc']}: {r['msg']}")
    if r["ok"]:
        bad = sample_oracle(ts, r["out"].nodes_time, d["kw"].get("min_branch_length", 1e-8))
        print("violations:", bad)
        return not bad
    return True
