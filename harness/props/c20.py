"""
C20 — EP is exact in the conjugate (star) case.

A  theorems in Props/C20: one conjugate update (`star_update`), first visit / revisit of an edge for ANY damping,
   the star invariant over any edge order, `C20_uncapped` (all star inputs, edge orders covering every edge,
   min_step in (0,1), k >= 1 iterations: posterior natural parameters = (sum y, mu*sum span) provided
   1 + sum y <= max_shape), and the negation of the capped clause on a concrete rational input
   (`C20_capped_counterexample`, `C20_capped_statement_false`) — finding F9.
B  the hand-modelled pieces against the real functions: `damp` vs `variational._damp`, `rescale` vs
   `variational._rescale` (bit for bit, incl. which inputs trip the asserts), `rootwardT0` vs
   `approx.rootward_projection(0, ...)`; whole star runs: the Lean model with ITS OWN conjugate projection
   (no oracle calls) against the real `iterate` on star inputs.
C  oracle = closed form on real tsdate.date() fits of star-like tree sequences (rates 1e-12..1e-2, max_shape in
   {2,10,100,1000}, 1..10 iterations).  Uncapped: exact to rounding. Capped: shape == max_shape is required; the
   one-factor rate is the known finding F9 (kind capped-star-not-one-factor).
"""

import numpy as np

from .. import common, dating, gen
from .. import ep_corr as E
from ..common import Result, Violation, f2h

META = dict(
    level='Lean theorems over the EP model specialised to star inputs with hand-modelled rootward t_j=0 projection, _damp and _rescale (each proved equal to the kernel regenerated from the source and tied to the real function by bit-level correspondence): for all star inputs, edge orders covering all edges, dampings and k>=1 iterations the posterior is exactly (1+sum y, mu*sum span) when 1+sum y <= max_shape. The capped clause is FALSE of the code: negation proved in Lean on a concrete rational input and reproduced on the real code (finding F9, known). Partial: capped clause violated; float rounding outside the theorem (observed <= 4e-16).',
    note='Lean kernel + {propext, Classical.choice, Quot.sound}; sampled bit-exact correspondence of damp/rescale/rootwardT0 and of whole star runs; exact arithmetic in the theorems',
    technique='specialised loop invariant (visited messages equal likelihoods) + decide-checked counterexample + closed-form oracle',
    ref='§3 C20',
)
LEAN_PROPS = ["TsdateVerif.Props.C20"]
LEAN_BUILD = ["TsdateVerif.Model.EPRun"]
TRANSLATORS = ["kernels"]     # Gen/Kernels.lean is regenerated from the source; Props re-prove `*_generated`
ASSUMPTIONS = [
    "star input: no singleton blocks, every edge joins a non-fixed parent to a sample at time 0 (StarNet; evaluated per input)",
    "regularise_roots=False, rescaling_intervals=0 (the property's own hypothesis)",
    "0 < min_step < 1 < max_shape, TINY <= 1",
]

RTOL = 1e-9


def kernel_corr(L, rng, res, stats, n):
    """damp / rescale / rootwardT0 against the real functions."""
    ops, expect = [], []
    for _ in range(n):
        kind = rng.choice(["damp", "rescale", "rootward0"])
        mag = lambda: float(10.0 ** rng.uniform(-6, 6))  # noqa: E731
        if kind == "damp":
            x = [mag() - (1.0 if rng.random() < 0.3 else 0.0), mag()]
            mode = rng.random()
            if mode < 0.15:
                x, y = [0.0, 0.0], [0.0, 0.0]
            elif mode < 0.5:      # message close to the posterior: damping bites
                y = [x[0] * rng.uniform(0.5, 1.5), x[1] * rng.uniform(0.5, 1.5)]
            elif mode < 0.6:      # violates an assert
                x = [-1.0 - mag(), mag()] if rng.random() < 0.5 else [mag(), -mag()]
                y = [mag(), mag()]
            else:
                y = [mag() * rng.choice([-1, 1]), mag() * rng.choice([-1, 1])]
            s = float(rng.choice([0.1, 0.1, 0.5, 0.01, 0.99]))
            ops.append(("damp", x + y + [s]))
            expect.append(("damp", E.real_damp(x, y, s)))
        elif kind == "rescale":
            x = [mag() * rng.choice([1, 1, -1]) * rng.choice([1, 1e-3]), mag()]
            if rng.random() < 0.1:
                x = [0.0, 0.0]
            if rng.random() < 0.1:
                x = [-1.0 - mag(), mag()]
            s = float(rng.choice([1.5, 2.0, 10.0, 100.0, 1000.0]))
            if rng.random() < 0.3:      # exactly on / next to the cap
                x[0] = float(np.nextafter(s - 1.0, rng.choice([-np.inf, np.inf]))) if rng.random() < 0.5 else s - 1.0
            ops.append(("rescale", x + [s]))
            expect.append(("rescale", E.real_rescale(x, s)))
        else:
            cav = [mag() - 1.0, mag()] if rng.random() < 0.8 else [-1.0 - mag(), mag() * rng.choice([-1, 1])]
            if rng.random() < 0.15:
                cav = [0.0, 0.0]
            lik = [float(rng.integers(0, 1000)), mag()]
            ops.append(("rootward0", cav + lik))
            expect.append(("rootward0", E.real_rootward0(cav, lik)))
    replies = E.run_ops(L, ops)
    for (op, args), (kind, exp), rep in zip(ops, expect, replies):
        res.evaluations += 1
        stats["kernel_ops"][kind] = stats["kernel_ops"].get(kind, 0) + 1
        bad = None
        if kind in ("damp", "rescale"):
            val, ok = exp
            m_ok = rep[1] == "1"
            if ok != m_ok:
                bad = f"assert status differs (real {'ok' if ok else 'AssertionError'}, model {'ok' if m_ok else 'assert'})"
            elif ok and f2h(val) != rep[0]:
                bad = f"value differs: real {val!r} model {common.h2f(rep[0])!r}"
            if ok and val != 1.0:
                stats["kernel_nontrivial"] += 1
        else:
            p, skipped = exp
            m_skip = rep[2] == "1"
            if skipped != m_skip:
                bad = f"skip status differs (real {skipped}, model {m_skip})"
            elif not skipped:
                mp = np.array([common.h2f(rep[0]), common.h2f(rep[1])])
                # numba evaluates r**2 and mn**2 through pow(); allow 4 ulp
                if not all(common.ulps(float(a), float(b)) <= 4 for a, b in zip(p, mp)):
                    bad = f"value differs: real {p.tolist()} model {mp.tolist()}"
                stats["rootward_max_ulps"] = max(stats["rootward_max_ulps"],
                                                 max(common.ulps(float(a), float(b)) for a, b in zip(p, mp)))
        if bad:
            res.corr_failures.append(Violation(f"{kind}-model-differs", f"{kind}{args}: {bad}",
                                               dict(kind="kernel", op=kind, args=[f2h(a) for a in args]), stage="B"))


def star_case(L, rng, cid, res, stats):
    """Whole star run: real `iterate` vs the Lean model using its own conjugate projection."""
    import tsdate.variational as V
    ts, info = E.star_forest_ts(rng)
    mu = float(10.0 ** rng.uniform(-12, -2))
    try:
        ep = V.ExpectationPropagation(ts, mutation_rate=mu)
    except Exception as e:  # noqa: BLE001
        stats["ctor_raised"][type(e).__name__] = stats["ctor_raised"].get(type(e).__name__, 0) + 1
        return
    st = E.static_of(ep)
    stats["hyp_star"] += int(E.is_star_static(st))
    covers = set(int(i) for i in st["eorder"]) == set(range(st["ep"].size))
    stats["hyp_order_covers_all_edges"] += int(covers)
    ms = float(rng.choice([2.0, 10.0, 100.0, 1000.0]))
    iters = int(rng.choice([1, 2, 5]))
    opts = dict(max_shape=ms, regularise=False, iters=iters)
    impl_states, impl_status = E.run_impl(ep, **opts)
    out = E.run_model(L, cid, st, star=True, **opts)
    res.evaluations += 1
    stats["star_runs"] += 1
    stats["oracle_calls_in_star_runs"] += len(out["calls"])
    replay = dict(E.state_replay(st), opts=opts, star=True, ts=gen.ts_to_jsonable(ts), mutation_rate=mu)
    bad = None
    if (impl_status == "DONE") != (out["status"] == "DONE"):
        bad = f"implementation {impl_status}, model {out['status']}"
    else:
        for a, b in zip(impl_states, out["states"]):
            pa, pb = a["post"].reshape(-1), b["post"]
            with np.errstate(all="ignore"):
                rel = np.max(np.abs(pa - pb) / np.maximum(np.abs(pa), 1e-300)) if pa.size else 0.0
            stats["star_max_rel"] = max(stats["star_max_rel"], float(rel))
            if not rel <= 1e-12:
                bad = f"iteration {b['it']}: posterior differs (max rel {rel:.2e})"
                break
    if bad:
        res.corr_failures.append(Violation("star-model-differs", bad, replay, stage="B"))
    y, rate = E.star_expected(ts, mu)
    capped = bool(np.any(1 + y > ms))
    if capped or info["muts"] > 0:
        res.nontrivial.add(common.canon_key([replay["ts"], opts, mu]))


def oracle_fit(ts, mu, ms, fit_post, label):
    """C20 on the node posteriors of a real fit. Returns list of (kind, what)."""
    bad = []
    y, rate = E.star_expected(ts, mu)
    for p in range(ts.num_nodes):
        if ts.node(p).is_sample() or rate[p] == 0:
            continue
        mean, var = float(fit_post["mean"][p]), float(fit_post["variance"][p])
        shape = mean * mean / var if var > 0 else float("nan")
        if 1 + y[p] <= ms:
            em, ev = (1 + y[p]) / rate[p], (1 + y[p]) / rate[p] ** 2
            if not (abs(mean - em) <= RTOL * em and abs(var - ev) <= RTOL * ev):
                bad.append(("uncapped-star-not-conjugate",
                            f"[{label}] node {p}: mean/var {mean!r}/{var!r} but conjugate posterior has {em!r}/{ev!r} "
                            f"(sum y = {y[p]:g}, max_shape = {ms:g})"))
        else:
            eta = (ms - 1) / y[p]
            em = ms / (eta * rate[p])
            if not abs(shape - ms) <= RTOL * ms:
                bad.append(("capped-star-shape-not-max-shape",
                            f"[{label}] node {p}: shape {shape!r} but max_shape {ms:g} (sum y = {y[p]:g})"))
            elif not abs(mean - em) <= RTOL * em:
                bad.append(("capped-star-not-one-factor",
                            f"[{label}] node {p}: capped mean {mean!r}, one-factor rescaling gives {em!r} "
                            f"(rel {(mean - em) / em:+.2e}; sum y = {y[p]:g}, max_shape = {ms:g})"))
    return bad


def date_case(rng, res, stats, force_capped=None):
    import tsdate
    kw = {}
    if force_capped:
        kw = dict(total_muts=int(rng.choice([30, 100, 400])), skew=float(rng.choice([1.0, 3.0])))
    ts, info = E.star_forest_ts(rng, **kw)
    if ts.num_mutations == 0:
        stats["date_status"]["skipped-no-mutations"] = stats["date_status"].get("skipped-no-mutations", 0) + 1
        return
    mu = float(10.0 ** rng.uniform(-12, -2))
    ms = float(rng.choice([2.0, 10.0] if force_capped else [2.0, 10.0, 100.0, 1000.0, 1000.0]))
    args = dict(mutation_rate=mu, method="variational_gamma", max_iterations=int(rng.choice([1, 2, 5, 10])),
                max_shape=ms, regularise_roots=False, rescaling_intervals=0)
    dating.quiet()
    res.evaluations += 1
    try:
        _, fit = tsdate.date(ts, return_fit=True, **args)
    except BaseException as e:  # noqa: BLE001
        if isinstance(e, (KeyboardInterrupt, MemoryError)):
            raise
        key = type(e).__name__
        stats["date_status"][key] = stats["date_status"].get(key, 0) + 1
        return
    stats["date_status"]["returned"] = stats["date_status"].get("returned", 0) + 1
    post = fit.node_posteriors()
    replay = dict(kind="date", ts=gen.ts_to_jsonable(ts), args=args)
    y, rate = E.star_expected(ts, mu)
    capped = bool(np.any(1 + y > ms))
    stats["date_capped" if capped else "date_uncapped"] += 1
    for kind, what in oracle_fit(ts, mu, ms, post, f"n={info['n']} trees={info['trees']} muts={info['muts']}"):
        res.violations.append(Violation(kind, what, replay))
    res.nontrivial.add(common.canon_key([replay["ts"], args]))
    res.sample(dict(samples=info["n"], parents=info["parents"], trees=info["trees"], mutations=info["muts"],
                    capped=capped, **{k: v for k, v in args.items() if k != "method"}))


def new_stats():
    return dict(kernel_ops={}, kernel_nontrivial=0, rootward_max_ulps=0, star_runs=0, star_max_rel=0.0,
                oracle_calls_in_star_runs=0, hyp_star=0, hyp_order_covers_all_edges=0, ctor_raised={},
                date_status={}, date_capped=0, date_uncapped=0)


def run(ctx):
    res = Result()
    import tsdate  # noqa: F401
    dating.quiet()
    stats = new_stats()
    with E.LeanEP() as L:
        kernel_corr(L, ctx.rng(1), res, stats, ctx.n(600, 10000))
        rng = ctx.rng(2)
        for i in range(ctx.n(40, 800)):
            star_case(L, rng, i, res, stats)
    rng = ctx.rng(3)
    for i in range(ctx.n(40, 800)):
        date_case(rng, res, stats, force_capped=(i % 4 == 0))
    res.rule = ("B: 600 scalar-kernel cases (damp / rescale / rootwardT0 vs the real functions; bit-exact, 4 ulp for "
                "the projection) + star-forest tree sequences (2..8 samples, 1..4 parents, 1..5 trees, 0..400 "
                "mutations with skewed shares) run through the real iterate() and through the Lean model with its own "
                "conjugate projection; C: tsdate.date(regularise_roots=False, rescaling_intervals=0) on star forests, "
                "rates 1e-12..1e-2, max_shape {2,10,100,1000}, 1..10 iterations, compared with the closed form "
                "(rtol 1e-9). Non-trivial = star input with at least one mutation (distinct by hash of tables and "
                "options); capped inputs are drawn on purpose every 4th case.")
    res.extra = dict(input_distribution=stats,
                     hypothesis_hit_rates=dict(StarNet=f"{stats['hyp_star']}/{stats['star_runs']}",
                                               order_covers_all_edges=f"{stats['hyp_order_covers_all_edges']}/{stats['star_runs']}"))
    return res


def search(ctx):
    res = Result()
    stats = new_stats()
    rng = ctx.rng(4)
    for i in range(ctx.n(20, 100)):
        date_case(rng, res, stats, force_capped=(i % 2 == 0))
    return res


def replay(ctx, payload):
    import tsdate
    d = payload.get("input") or payload.get("correspondence_input")
    dating.quiet()
    if d.get("kind") == "kernel":
        args = [common.h2f(a) for a in d["args"]]
        with E.LeanEP() as L:
            rep = E.run_ops(L, [(d["op"], args)])[0]
        real = dict(damp=lambda: E.real_damp(args[:2], args[2:4], args[4]),
                    rescale=lambda: E.real_rescale(args[:2], args[2]),
                    rootward0=lambda: E.real_rootward0(args[:2], args[2:4]))[d["op"]]()
        print("implementation:", real)
        print("model         :", rep)
        return False
    ts = gen.ts_from_jsonable(d["ts"])
    if d.get("kind") == "date":
        args = d["args"]
        _, fit = tsdate.date(ts, return_fit=True, **args)
        bad = oracle_fit(ts, args["mutation_rate"], args["max_shape"], fit.node_posteriors(), "replay")
        y, rate = E.star_expected(ts, args["mutation_rate"])
        print("sum y per node:", y.tolist())
        print("node_posteriors mean:", fit.node_posteriors()["mean"].tolist())
        print("violations:", bad)
        return not bad
    st = E.static_from_replay(d)
    opts = d["opts"]
    impl_states, impl_status = E.run_impl(E.RawEP(st), **opts)
    with E.LeanEP() as L:
        out = E.run_model(L, 0, st, star=True, **opts)
    print("implementation:", impl_status, impl_states[-1]["post"].tolist() if impl_states else None)
    print("model         :", out["status"], out["states"][-1]["post"].reshape(-1, 2).tolist() if out["states"] else None)
    return False
