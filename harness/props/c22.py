"""
C22 — unphased singleton handling only re-phases singletons and ignores input phase.

A  theorems in Props/C22 over the Lean model of `_block_singletons` and of the node switch in `infer`
   (block edges belong to one unphased individual; a mutation's block is a block of its own individual; output
   node != input node only within an unphased individual / to the other node of a diploid one; no unphased
   individual => no blocks => nodes unchanged; blocks are unchanged by any re-phasing of the input; the two
   edges of a block are different edges when the insertion index is a permutation).
B  the model's executable definitions against the real numba kernel `_block_singletons` (exact ints, spans
   bit-for-bit, AssertionError <-> bad-op) on arrays serialised from diploid tree sequences (plus array-level
   variants: unphased masks, stripped individuals) and their re-phasings; the model of the switch against the
   state a real `ExpectationPropagation.infer` leaves behind.
C  the statement on `tsdate.date(method="variational_gamma")`: singletons_phased=True never changes a node;
   False changes nodes only within 2-node individuals; random re-phasings of the input give the same output.
"""

import numpy as np

from .. import blocks_corr as bc, common, gen
from ..common import Result, Violation

META = dict(
    level='Lean theorems over an executable model of `_block_singletons` (the whole sweep: edges out / edges in / mutation loop, block flushing, final re-ordering) and of the mutation-node switch in `ExpectationPropagation.infer`, for all inputs on which the kernel does not assert: every block pairs two different edges above nodes of one unphased individual; a mutation is only put in a block of its own individual; an output mutation node differs from the input node only by moving to the other node of its unphased diploid individual; with no unphased individual there are no blocks and no node changes; (blocks_stats, blocks_edges, mutations_block) are invariant under every re-phasing of the input mutation nodes. Model tied to the numba kernel by exact/bit-exact correspondence on generated diploid inputs and their re-phasings, the switch model tied to real infer() runs. Partial: that EP between the two reads mutation nodes only through the blocks is by inspection plus the end-to-end re-phasing oracle, not a theorem; tskit sort/validity by contract.',
    note='Lean kernel + {propext, Classical.choice, Quot.sound}; sampled correspondence with the numba kernels; argsort tie order and tskit by contract; EP congruence observed, not proved',
    technique='sweep invariants by induction over loop bodies (any control flow) + congruence + exact model/implementation correspondence',
    ref='§3 C22',
)
LEAN_PROPS = ["TsdateVerif.Props.C22"]
LEAN_BUILD = ["TsdateVerif.Model.Proto", "TsdateVerif.Model.Blocks"]
ASSUMPTIONS = [
    "np.argsort(mutations_position) is modelled by a stable sort; ties are processed in one batch so their order is immaterial",
    "the EP iterations read mutation nodes only through (blocks_stats, blocks_edges, mutations_block): by inspection, and observed end to end on re-phased inputs",
    "tskit's tables.sort()/compute_mutation_parents in get_modified_ts are taken by contract (mutations are matched by (site, derived state, individual-or-node), not by row)",
    "inputs where `individuals_block` (allocated with num_edges entries) would be indexed out of bounds are rejected by the model (num_individuals <= num_edges is part of wellFormed)",
]


# ----------------------------------------------------------------------------- stage B + kernel-level oracle

def kernel_facts(c, impl):
    """Conclusions of the theorems evaluated on the implementation's own output (kinds for stage C)."""
    bad = []
    if impl[0] != "ok":
        return bad
    _, edges, cnt, span, mblock = impl
    nind, unph, child, mnode = c["nind"], c["unph"], c["child"], c["mnode"]
    for b, (e0, e1) in enumerate(edges):
        i0, i1 = int(nind[child[e0]]), int(nind[child[e1]])
        if i0 == bc.NULL or i0 != i1 or not unph[i0] or e0 == e1 or child[e0] == child[e1]:
            bad.append(("block-edges-not-of-one-individual", f"block {b}: edges {(e0, e1)} belong to individuals {(i0, i1)}"))
            break
    for m, b in enumerate(mblock):
        if b == bc.NULL:
            continue
        i = int(nind[mnode[m]])
        if not (0 <= b < len(edges)) or i == bc.NULL or int(nind[child[edges[b][0]]]) != i:
            bad.append(("mutation-in-foreign-block", f"mutation {m} (individual {i}) is in block {b}"))
            break
    if not np.any(unph) and (edges or any(b != bc.NULL for b in mblock)):
        bad.append(("blocks-without-unphased-individuals", "blocks returned although no individual is unphased"))
    return bad


def stage_b_blocks(ctx, res, stats, n_base):
    rng = ctx.rng(1)
    cases, impls, pairs = [], [], []
    for _ in range(n_base):
        ts, info = bc.gen_diploid(rng, big=(ctx.tier == "thorough"))
        if ts.num_edges == 0:
            continue
        unph, nind, mode = bc.mutilate_arrays(rng, ts)
        c0 = bc.blocks_case(ts, unph, nind=nind, tag=mode)
        mn, moved = bc.rephase_nodes(ts, rng, p=float(rng.choice([0.2, 0.5, 1.0])))
        c1 = bc.blocks_case(ts, unph, nind=nind, mnode=mn, tag=mode + "+rephased")
        i0, i1 = bc.run_blocks_impl(c0), bc.run_blocks_impl(c1)
        pairs.append((len(cases), len(cases) + 1, moved))
        cases += [c0, c1]
        impls += [i0, i1]
        stats["modes"][mode] = stats["modes"].get(mode, 0) + 1
        stats["fired"].update({k: stats["fired"].get(k, 0) + 1 for k in info["fired"]})
    text = "".join(bc.encode_blocks(f"b{i}", c) for i, c in enumerate(cases))
    return text, (cases, impls, pairs)


def eval_b_blocks(res, stats, model, prepared):
    cases, impls, pairs = prepared
    for i, (c, im) in enumerate(zip(cases, impls)):
        res.evaluations += 1
        mo = bc.decode_blocks(model.get(f"b{i}", ["bad-op"]))
        if im[0] == "raise":
            stats["kernel_raised"][im[1]] = stats["kernel_raised"].get(im[1], 0) + 1
        else:
            stats["hyp_wellformed_and_accepted"] += 1
            stats["hyp_insertion_index_injective"] += int(len(set(c["ins"].tolist())) == c["ins"].size)
            cnt_nodes = np.bincount(c["nind"][c["nind"] >= 0], minlength=c["unph"].size)
            stats["hyp_unphased_individuals_have_two_nodes"] += int(np.all(cnt_nodes[c["unph"]] == 2))
            stats["blocks"] += len(im[1])
            stats["blocked_mutations"] += sum(1 for b in im[4] if b != bc.NULL)
        if not bc.same_blocks(im, mo):
            what = (f"_block_singletons differs from the Lean model ({c['tag']}): impl "
                    f"{im[0]} {len(im[1]) if im[0] == 'ok' else im[1]} block(s), model {mo[0]} "
                    f"{len(mo[1]) if mo[0] == 'ok' else ''}")
            res.corr_failures.append(Violation("blocks-model-differs", what,
                                               dict(bc.blocks_case_replay(c), impl=list(im), model=list(mo)), stage="B"))
        for kind, what in kernel_facts(c, im):
            res.violations.append(Violation(kind, what, bc.blocks_case_replay(c)))
    for a, b, moved in pairs:
        if impls[a] != impls[b]:
            res.violations.append(Violation(
                "blocks-depend-on-input-phase",
                f"_block_singletons output changes when {moved} singleton(s) are moved to the other node of their individual",
                dict(bc.blocks_case_replay(cases[a]), rephased_mnode=cases[b]["mnode"].tolist())))
        if impls[a][0] == "ok" and impls[a][1] and moved:
            res.nontrivial.add(common.canon_key(bc.blocks_case_replay(cases[a])))
    if cases:
        c = cases[0]
        res.sample(dict(kind="blocks", edges=int(c["child"].size), mutations=int(c["mnode"].size),
                        individuals=int(c["unph"].size), mode=c["tag"],
                        blocks=(len(impls[0][1]) if impls[0][0] == "ok" else impls[0][1])))


def stage_b_switch(ctx, res, stats, n):
    rng = ctx.rng(2)
    tails = []
    for _ in range(n):
        ts, info = bc.gen_diploid(rng, gaps=0.0, big=(ctx.tier == "thorough"))
        if ts.num_mutations == 0:
            continue
        phased = bool(rng.random() < 0.15)
        ri = int(rng.choice([0, 0, 1, 3]))
        seg = bool(rng.random() < 0.5)
        rec = bc.run_fit(ts, info["mu"], singletons_phased=phased, rescale_intervals=ri, rescale_iterations=2,
                         rescale_segsites=seg, ep_iterations=int(rng.integers(1, 4)))
        if not rec["ok"]:
            key = f"{rec['stage']}:{rec['exc']}"
            stats["fit_raised"][key] = stats["fit_raised"].get(key, 0) + 1
            continue
        tails.append((bc.tail_case(rec, ri, 2, seg), phased))
    return "".join(bc.encode_tail(f"t{i}", c) for i, (c, _) in enumerate(tails)), tails


def eval_b_switch(res, stats, model, tails):
    for i, (c, phased) in enumerate(tails):
        res.evaluations += 1
        mo = bc.decode_tail(model.get(f"t{i}", ["bad-op"]))
        post = c["post"]
        same = mo is not None and mo["mnode"] == post["mnode"] and mo["medge"] == post["medge"] and mo["phase"] == post["phase"]
        if not same:
            res.corr_failures.append(Violation(
                "switch-model-differs",
                f"mutation_nodes/edges/phase after infer() differ from the Lean model of the switch (singletons_phased={phased})",
                dict(bc.tail_case_replay(c), model=mo), stage="B"))
        switched = int(np.sum(np.array(c["mnode"]) != np.array(post["mnode"])))
        stats["switched_in_fits"] += switched
        if switched:
            res.nontrivial.add(common.canon_key(bc.tail_case_replay(c)))
        if phased and switched:
            res.violations.append(Violation("node-changed-with-singletons-phased",
                                            f"{switched} mutation node(s) changed in infer() with singletons_phased=True",
                                            bc.tail_case_replay(c)))


# ----------------------------------------------------------------------------- stage C: end to end

def one_input(rng, res, stats, n_rephase):
    ts, info = bc.gen_diploid(rng, gaps=0.0, mpe=float(rng.choice([3, 8])))
    if ts.num_mutations == 0:
        return
    ts = bc.roundtrip(ts)
    kw = bc.draw_date_kw(rng, info)
    replay = dict(kind="date", ts=gen.ts_to_jsonable(ts), kw=kw)
    res.evaluations += 1
    # singletons_phased=True: nodes never change
    r_ph = bc.run_vg(ts, kw, True)
    if r_ph["ok"]:
        for kind in bc.node_change_kinds(ts, r_ph["out"], True):
            res.violations.append(Violation(kind, "singletons_phased=True but an output mutation node differs from the input",
                                            dict(replay, singletons_phased=True)))
    else:
        stats["date_raised"][("F5" if r_ph["f5"] else r_ph["exc"])] = stats["date_raised"].get(("F5" if r_ph["f5"] else r_ph["exc"]), 0) + 1
    # singletons_phased=False on the input and on its re-phasings
    r0 = bc.run_vg(ts, kw, False)
    if not r0["ok"]:
        k = "F5" if r0["f5"] else r0["exc"]
        stats["date_raised"][k] = stats["date_raised"].get(k, 0) + 1
    else:
        for kind in bc.node_change_kinds(ts, r0["out"], False):
            res.violations.append(Violation(kind, "singletons_phased=False: an output mutation left its individual (or a non-singleton moved)",
                                            dict(replay, singletons_phased=False)))
        sw = bc.count_switched(ts, r0["out"])
        stats["switched_end_to_end"] += sw
    s0 = bc.output_signature(r0["out"]) if r0["ok"] else None
    for _ in range(n_rephase):
        ts2, moved = bc.rephase_ts(ts, rng, p=float(rng.choice([0.3, 0.5, 1.0])))
        stats["rephased_mutations"] += moved
        r1 = bc.run_vg(ts2, kw, False)
        res.evaluations += 1
        rp = dict(replay, singletons_phased=False, rephased=gen.ts_to_jsonable(ts2))
        if r0["ok"] != r1["ok"] or (not r0["ok"] and (r0["exc"], r0["f5"]) != (r1["exc"], r1["f5"])):
            res.violations.append(Violation("rephasing-changes-outcome",
                                            f"date() {'returned' if r0['ok'] else 'raised ' + r0['exc']} on the input but "
                                            f"{'returned' if r1['ok'] else 'raised ' + r1['exc']} on a re-phasing ({moved} moved)", rp))
            continue
        if not r1["ok"]:
            continue
        for kind in bc.node_change_kinds(ts2, r1["out"], False):
            res.violations.append(Violation(kind, "singletons_phased=False: an output mutation left its individual", rp))
        for kind in bc.compare_signatures(s0, bc.output_signature(r1["out"])):
            res.violations.append(Violation(kind, f"output differs between an input and a re-phasing of {moved} singleton(s): {kind}", rp))
        if moved:
            res.nontrivial.add(common.canon_key([replay["ts"]["mutations"]["node"], rp["rephased"]["mutations"]["node"], kw]))
    res.sample(dict(kind="date", samples=int(ts.num_samples), trees=int(ts.num_trees), mutations=int(ts.num_mutations),
                    kw={k: v for k, v in kw.items()}, returned=bool(r0["ok"])))


def one_rejected_input(rng, res, stats):
    """Inputs whose individuals are not (diploid, contemporary): singletons_phased=True must still leave every
    node alone; singletons_phased=False is refused by block_singletons (recorded, not judged)."""
    if rng.random() < 0.5:
        ts, info = gen.sim_ts(rng, n=int(rng.integers(3, 8)), ploidy=1, muts_per_edge=3.0)
        what = "haploid"
    else:
        ts, info = gen.sim_ts(rng, n=int(rng.integers(3, 6)), ploidy=2, historical=True, muts_per_edge=3.0)
        what = "historical-diploid"
    if ts.num_mutations == 0:
        return
    ts = bc.roundtrip(ts)
    kw = bc.draw_date_kw(rng, info)
    replay = dict(kind="date", ts=gen.ts_to_jsonable(ts), kw=kw)
    res.evaluations += 1
    r = bc.run_vg(ts, kw, True)
    if r["ok"]:
        for kind in bc.node_change_kinds(ts, r["out"], True):
            res.violations.append(Violation(kind, f"{what} input, singletons_phased=True: an output mutation node differs from the input",
                                            dict(replay, singletons_phased=True)))
    r2 = bc.run_vg(ts, kw, False)
    key = f"{what}:unphased:" + ("returned" if r2["ok"] else ("F5" if r2["f5"] else r2["exc"]))
    stats["non_diploid_inputs"][key] = stats["non_diploid_inputs"].get(key, 0) + 1
    if r2["ok"]:
        for kind in bc.node_change_kinds(ts, r2["out"], False):
            res.violations.append(Violation(kind, f"{what} input, singletons_phased=False: an output mutation left its individual",
                                            dict(replay, singletons_phased=False)))


def new_stats():
    return dict(modes={}, fired={}, kernel_raised={}, fit_raised={}, date_raised={}, non_diploid_inputs={},
                hyp_wellformed_and_accepted=0, hyp_insertion_index_injective=0, hyp_unphased_individuals_have_two_nodes=0,
                blocks=0, blocked_mutations=0, switched_in_fits=0, switched_end_to_end=0, rephased_mutations=0)


def run(ctx):
    res = Result()
    import tsdate  # noqa: F401
    stats = new_stats()
    import time
    t0 = time.time()
    text_b, prep_b = stage_b_blocks(ctx, res, stats, ctx.n(40, 700))
    text_t, prep_t = stage_b_switch(ctx, res, stats, ctx.n(20, 300))
    t1 = time.time()
    model = bc.run_model(text_b + text_t)        # one driver start for all model cases of this run
    eval_b_blocks(res, stats, model, prep_b)
    eval_b_switch(res, stats, model, prep_t)
    t2 = time.time()
    rng = ctx.rng(3)
    for _ in range(ctx.n(12, 200)):
        one_input(rng, res, stats, n_rephase=2 if ctx.tier == "quick" else 4)
    for _ in range(ctx.n(3, 40)):
        one_rejected_input(rng, res, stats)
    stats["stage_seconds"] = dict(implementation_side_of_B=round(t1 - t0, 1), lean_driver=round(t2 - t1, 1),
                                  end_to_end=round(time.time() - t2, 1))
    res.rule = ("B: `_block_singletons` (numba) vs Lean model on arrays of diploid msprime tree sequences (gaps, twin "
                "singletons, unphased masks, stripped individuals) and on re-phasings of each, exact ints and bit-exact spans, "
                "AssertionError<->bad-op; node switch of real infer() runs vs model. C: date(variational_gamma) with "
                "singletons_phased True/False on inputs and random re-phasings, mutations matched by (site, derived state, "
                "individual-or-node). Non-trivial = blocks exist and at least one singleton was moved by the re-phasing, or "
                "infer() switched at least one mutation node; distinct by canonical hash of the input.")
    res.extra = dict(input_distribution=stats)
    return res


def search(ctx):
    res = Result()
    stats = new_stats()
    rng = ctx.rng(4)
    for _ in range(ctx.n(6, 40)):
        one_input(rng, res, stats, n_rephase=3)
    return res


def replay(ctx, payload):
    import tsdate  # noqa: F401
    d = payload["input"] if "input" in payload else payload.get("correspondence_input")
    if d["kind"] == "blocks":
        c = bc.blocks_case_from_replay(d)
        im = bc.run_blocks_impl(c)
        mo = bc.decode_blocks(bc.run_model(bc.encode_blocks("r", c)).get("r", ["bad-op"]))
        print("implementation:", im)
        print("model         :", mo)
        ok = bc.same_blocks(im, mo) and not kernel_facts(c, im)
        if "rephased_mnode" in d:
            c2 = dict(c, mnode=np.array(d["rephased_mnode"], dtype=np.int32))
            im2 = bc.run_blocks_impl(c2)
            print("implementation on the re-phased input:", im2)
            ok = ok and im2 == im
        return bool(ok)
    if d["kind"] == "tail":
        c = dict(rescale=bool(d["rescale"]), child=np.array(d["child"]), bedges=np.array(d["bedges"]).reshape(-1, 2),
                 mblock=np.array(d["mblock"]), phase=[common.h2f(x) for x in d["phase"]], medge=d["medge"], mnode=d["mnode"],
                 lik=[common.h2f(x) for x in d["lik"]])
        mo = bc.decode_tail(bc.run_model(bc.encode_tail("r", c)).get("r", ["bad-op"]))
        print("implementation (recorded):", {k: d["post"][k][:20] for k in ("medge", "mnode")})
        print("model                    :", None if mo is None else {k: mo[k][:20] for k in ("medge", "mnode")})
        return mo is not None and mo["mnode"] == d["post"]["mnode"] and mo["medge"] == d["post"]["medge"]
    ts = gen.ts_from_jsonable(d["ts"])
    ph = bool(d.get("singletons_phased", False))
    r0 = bc.run_vg(ts, d["kw"], ph)
    print("date(input):", "returned" if r0["ok"] else f"raised {r0['exc']}: {r0['msg']}")
    bad = []
    if r0["ok"]:
        bad += bc.node_change_kinds(ts, r0["out"], ph)
    if "rephased" in d:
        ts2 = gen.ts_from_jsonable(d["rephased"])
        r1 = bc.run_vg(ts2, d["kw"], False)
        print("date(re-phased):", "returned" if r1["ok"] else f"raised {r1['exc']}: {r1['msg']}")
        if r0["ok"] and r1["ok"]:
            bad += bc.compare_signatures(bc.output_signature(r0["out"]), bc.output_signature(r1["out"]))
        elif r0["ok"] != r1["ok"]:
            bad.append("rephasing-changes-outcome")
    print("violations:", bad)
    return not bad
