"""
C05 — variational posteriors are proper, precision-capped gamma distributions.

A  theorems in Props/C05: `rescale_range`, `rescale_caps_exactly`, `damp_range`, `posterior_inv` /
   `C05_nodes_partial` (every stored node posterior is (0,0) or proper with shape in [1/max_shape, max_shape] after
   any number of iterations the real code completes without AssertionError, for ANY projections),
   `likelihood_update_never_asserts` (local), `node_moments_proper`, `mutation_posterior_proper`,
   `phase_flip_range`, `iqr_cap`.  Partial by nature: a node all of whose updates are skipped keeps (0,0)
   (`C05_statement` is kept unproved; the example in Props/C05 shows the gap is real for the model).
B  the model against the real code: `damp`/`rescale` (bit-exact incl. assert status), `gammaMom` vs
   `approximate_gamma_mom`, `momentsOf` vs `node_moments`, `flipPhase` vs the numpy flip, `reproject` vs
   `piecewise_scale_posterior` (cap decisions and `beta = (alpha+1)/midpt`), and whole runs (bit-exact replay of
   `iterate` as in C21) on inputs built to skip updates and to cap; on every replayed run the theorem's hypothesis
   (no assert fired) and conclusion (PostOK on the implementation's own array) are evaluated.
C  oracle on real tsdate.date() fits: `fit.node_posteriors()`, `fit.mutation_posteriors()`, `fit.mutation_phase`
   over max_iterations x max_shape (1.5, 2, 10, 1000) x rescaling x phased/unphased, with generators that drive
   NaN-skips (fixed ancient samples with mismatched rate scales, zero-mutation edges, mutations above roots).
"""

import math

import numpy as np

from .. import common, dating, gen
from .. import ep_corr as E
from ..common import Result, Violation, f2h, h2f
from . import c20

META = dict(
    level='Lean theorems over the EP model of tsdate/variational.py: ranges of _rescale and _damp under their own asserts (also stated for the kernels regenerated from the source); invariant "every stored node posterior is (0,0) or proper with 1/max_shape <= shape <= max_shape" over all inputs / iteration counts / options, for ANY projections, for every run completed without AssertionError; for valid-or-skip projections - in particular the projection kernels regenerated from the current approx.py - and regularise=false the asserts provably never fire, so the invariant is unconditional there; proper moments reported for proper posteriors; approximate_gamma_mom proper; phase flip in [1/2,1]; IQR reprojection capped. PARTIAL by nature: not proved that every non-sample node receives a non-skipped update (a node whose every update is skipped keeps the improper (0,0); shown possible for the model with an always-skipping projection); with root regularisation the invariant stays conditional on no AssertionError in propagate_prior; "finite" means "defined" (overflow not modelled). Model tied to the numba code bit-for-bit.',
    note='Lean kernel + {propext, Classical.choice, Quot.sound}; sampled bit-exact correspondence (kernels and whole runs); projections and gammainc_inv are parameters; exact arithmetic',
    technique='loop invariant guarded by the code\'s own asserts + range lemmas for _damp/_rescale + bit-exact replay; oracle search for never-updated nodes',
    ref='§3 C05',
)
LEAN_PROPS = ["TsdateVerif.Props.C05"]
LEAN_BUILD = ["TsdateVerif.Model.EPRun"]
TRANSLATORS = ["kernels"]     # Gen/Kernels.lean is regenerated from the source; Props re-prove `*_generated`
ASSUMPTIONS = [
    "max_shape > 1 (API validation), 0 < min_step < 1",
    "runs in which the real code raises AssertionError are outside the invariant (counted, classified)",
    "projection wrappers are parameters; their valid-or-skip contract is the other builder's (Gen/Kernels) obligation",
]

CAP_RTOL = 1e-12
MAX_SHAPES = [1.5, 2.0, 10.0, 1000.0]


# ----------------------------------------------------------------------------- B: scalar pieces

def output_kernels(L, rng, res, stats, n):
    from tsdate import approx
    ops, expect = [], []
    for _ in range(n):
        kind = str(rng.choice(["gammamom", "moments", "flip"]))
        mag = lambda: float(10.0 ** rng.uniform(-8, 8))  # noqa: E731
        if kind == "gammamom":
            mn, va = mag(), mag()
            ops.append((kind, [mn, va]))
            expect.append([float(x) for x in approx.approximate_gamma_mom(mn, va)])
        elif kind == "moments":
            a, b = mag() - 1.0, mag()
            # node_moments: mean = (alpha + 1) / beta; var = mean / beta
            mean = np.float64(a + 1) / np.float64(b)
            ops.append((kind, [a, b]))
            expect.append([float(mean), float(mean / np.float64(b))])
        else:
            x = float(rng.uniform(0, 1)) if rng.random() < 0.8 else float(rng.choice([0.0, 0.5, 1.0, float("nan")]))
            ph = np.array([x])
            sw = ph < 0.5
            ph[sw] = 1 - ph[sw]
            ops.append((kind, [x]))
            expect.append([float(ph[0])])
    replies = E.run_ops(L, ops)
    for (op, args), exp, rep in zip(ops, expect, replies):
        res.evaluations += 1
        stats["kernel_ops"][op] = stats["kernel_ops"].get(op, 0) + 1
        got = [float("nan") if r == "nan" else h2f(r) for r in rep]
        same = len(got) == len(exp) and all(f2h(a) == f2h(b) for a, b in zip(got, exp))
        if not same:
            res.corr_failures.append(Violation(f"{op}-model-differs", f"{op}{args}: real {exp} model {got}",
                                               dict(kind="kernel", op=op, args=[f2h(a) for a in args]), stage="B"))
        if op == "flip" and exp[0] == exp[0] and not (0.5 <= exp[0] <= 1.0):
            res.violations.append(Violation("phase-flip-out-of-range", f"flip({args[0]}) = {exp[0]}",
                                            dict(kind="kernel", op=op, args=[f2h(a) for a in args])))


def iqr_corr(L, rng, res, stats, n):
    """`reproject` against the real `piecewise_scale_posterior` (one free node, a single linear piece)."""
    from tsdate.hypergeo import _gammainc_inv
    from tsdate.rescaling import piecewise_scale_posterior
    ops, meta = [], []
    for _ in range(n):
        ms = float(rng.choice(MAX_SHAPES + [100.0]))
        # node posteriors reach this function capped; mutation posteriors do not (shape may exceed max_shape)
        shape = float(rng.choice([ms, ms * rng.uniform(0.2, 1.0), rng.uniform(0.3, 3.0), ms * 0.999999,
                                  ms * 10.0 ** rng.uniform(0.3, 4)]))
        alpha, beta = shape - 1.0, float(10.0 ** rng.uniform(-6, 3))
        qw = float(rng.choice([0.5, 0.5, 0.2, 0.9]))
        ql, qu = qw / 2, 1 - qw / 2
        big = 1e300
        c = float(rng.choice([1.0, 0.37, 2.5, 1e-3, 1e3]))
        ob, rb = np.array([0.0, big]), np.array([0.0, c * big])
        if not np.isfinite(rb[1]):
            continue
        post = np.array([[alpha, beta]])
        try:
            out = piecewise_scale_posterior(post, np.array([False]), ob, rb, qw, ms)
            real = (float(out[0, 0]), float(out[0, 1]))
        except Exception as e:  # noqa: BLE001
            real = type(e).__name__
        # the same float operations as the real function, up to the call of approximate_gamma_iqr
        lower = _gammainc_inv(alpha + 1, ql) / beta
        upper = _gammainc_inv(alpha + 1, qu) / beta
        mid = (alpha + 1) / beta
        sc = (rb[1] - rb[0]) / (ob[1] - ob[0])
        x1, x2, midpt = rb[0] + sc * (lower - ob[0]), rb[0] + sc * (upper - ob[0]), rb[0] + sc * (mid - ob[0])
        alpha0 = math.log(qu / ql) / math.log(x2 / x1) if (x2 > x1 and x1 > 0) else float("nan")
        capped_real = isinstance(real, tuple) and real[0] == ms - 1
        if isinstance(real, tuple):
            newton = (2 * ms) if capped_real else real[0] + 1      # Newton's result is only visible through the output
        else:
            newton = float("nan")
        gcap = float(_gammainc_inv(ms, ql))
        ga = float(_gammainc_inv(newton, ql)) if newton == newton and newton > 0 else float("nan")
        ops.append(("iqr", [ql, qu, float(x1), float(x2), ms, alpha0, newton, gcap, ga, float(midpt)]))
        meta.append((real, ms, alpha0, float(x1), float(x2)))
    replies = E.run_ops(L, ops)
    for (op, args), (real, ms, alpha0, x1, x2), rep in zip(ops, meta, replies):
        res.evaluations += 1
        stats["kernel_ops"]["iqr"] = stats["kernel_ops"].get("iqr", 0) + 1
        replay = dict(kind="kernel", op="iqr", args=[f2h(a) for a in args])
        if rep == ["raise"]:
            if isinstance(real, tuple):
                res.corr_failures.append(Violation("iqr-model-differs", f"model raises, real returned {real}", replay, stage="B"))
            continue
        got = (h2f(rep[0]), h2f(rep[1]))
        if not isinstance(real, tuple):
            res.corr_failures.append(Violation("iqr-model-differs", f"real raised {real}, model returned {got}", replay, stage="B"))
            continue
        must_cap = (x2 == x1) or (alpha0 == alpha0 and alpha0 > ms)      # decided before the opaque Newton iteration
        stats["iqr_capped_by_rule"] += int(must_cap)
        stats["iqr_capped"] += int(real[0] == ms - 1)
        if must_cap and real[0] != ms - 1:
            res.corr_failures.append(Violation("iqr-cap-rule-differs", f"alpha0={alpha0} > max_shape={ms} but real shape-1 = {real[0]}", replay, stage="B"))
        if f2h(got[0]) != f2h(real[0]) or f2h(got[1]) != f2h(real[1]):
            res.corr_failures.append(Violation("iqr-model-differs", f"real {real} model {got}", replay, stage="B"))
        if not (real[0] + 1 <= ms * (1 + CAP_RTOL) and real[0] + 1 > 0 and real[1] > 0):
            res.violations.append(Violation("reprojection-not-capped", f"piecewise_scale_posterior returned {real} for max_shape {ms}", replay))


# ----------------------------------------------------------------------------- B: whole runs

def post_ok(post, fixed, ms):
    """PostOK of the theorem, on an implementation array (cap met up to rounding)."""
    bad = []
    for n in range(post.shape[0]):
        a, b = post[n]
        if a == 0.0 and b == 0.0:
            continue
        if not (a + 1 > 0 and b > 0 and np.isfinite(a) and np.isfinite(b)):
            bad.append((n, "improper"))
        elif not (a + 1 <= ms * (1 + CAP_RTOL)):
            bad.append((n, "above-cap"))
        elif not (a + 1 >= (1 / ms) * (1 - CAP_RTOL)):
            bad.append((n, "below-1/cap"))
    return bad


def skip_input(rng):
    """Inputs built to make updates skip or cap: ancient fixed samples with a mismatched rate scale, huge counts."""
    want = str(rng.choice(["internal", "internal", "internal", "internal", "historical", "unphased", "twin", "sparse",
                           "plain"]))
    ts, kw, label = E.gen_input(rng, want=want)
    if want in ("internal", "historical"):
        f = float(rng.choice([1.0, 1e-10, 1e5, 1e10, 1e20]))
        kw = dict(kw, mutation_rate=kw["mutation_rate"] * f)
        label += f"*{f:g}"
    return ts, kw, label


def run_case(L, rng, cid, res, stats, perturb):
    import tsdate.variational as V
    ts, kw, label = skip_input(rng)
    if ts.num_mutations == 0 or ts.num_edges == 0:
        return
    try:
        ep = V.ExpectationPropagation(ts, **kw)
    except Exception as e:  # noqa: BLE001
        stats["ctor_raised"][type(e).__name__] = stats["ctor_raised"].get(type(e).__name__, 0) + 1
        return
    st = E.static_of(ep)
    obj = ep
    if perturb:
        st, what = E.perturb_static(rng, st)
        label += "+" + "+".join(what)
        obj = E.RawEP(st)
    opts = dict(max_shape=float(rng.choice(MAX_SHAPES)), regularise=bool(rng.random() < 0.5),
                iters=int(rng.choice([1, 2, 4])))
    impl_states, impl_status = E.run_impl(obj, **opts)
    out = E.run_model(L, cid, st, **opts)
    res.evaluations += 1
    replay = dict(E.state_replay(st), opts=opts, label=label)
    diffs = E.compare(impl_states, impl_status, out)
    if diffs:
        res.corr_failures.append(Violation("ep-model-differs", f"[{label}] " + "; ".join(diffs[:3]), replay, stage="B"))
    nskip = sum(1 for c in out["calls"] if c[2])
    stats["projection_calls"] += len(out["calls"])
    stats["skipped_updates"] += nskip
    stats["run_status"][impl_status] = stats["run_status"].get(impl_status, 0) + 1
    stats["hyp_run_without_assert"] += int(impl_status == "DONE")
    stats["runs"] += 1
    capped = False
    for it, s in enumerate(impl_states):                       # conclusion of posterior_inv on the real arrays
        bad = post_ok(s["post"], st["fixed"], opts["max_shape"])
        capped = capped or bool(np.any(np.isclose(s["post"][:, 0] + 1, opts["max_shape"], rtol=1e-9)))
        for n, why in bad:
            res.violations.append(Violation(f"stored-posterior-{why}",
                                            f"[{label}] iteration {it}: node {n} has natural parameters {s['post'][n].tolist()} "
                                            f"(max_shape {opts['max_shape']})", replay))
    if impl_states:
        never = int(np.sum((~st["fixed"]) & np.all(impl_states[-1]["post"] == 0, axis=1)))
        stats["never_updated_nodes_in_kernel_runs"] += never
    stats["capped_runs"] += int(capped)
    if nskip or capped:
        res.nontrivial.add(common.canon_key([E.state_replay(st), opts]))
    res.sample(dict(source="kernel run", label=label, nodes=int(st["fixed"].size), edges=int(st["ep"].size),
                    blocks=int(st["bj"].size), status=impl_status, skipped=nskip, capped=capped, **opts))


# ----------------------------------------------------------------------------- C: oracle on real fits

def oracle_fit(ts, fit, ms, label):
    bad = []
    fixed = fit.node_constraints[:, 0] == fit.node_constraints[:, 1]
    npost = fit.node_posteriors()
    for u in np.where(~fixed)[0]:
        mean, var = float(npost["mean"][u]), float(npost["variance"][u])
        nat = fit.node_posterior[u]
        if not (np.isfinite(mean) and np.isfinite(var) and mean > 0 and var > 0):
            why = "never-updated" if (nat[0] == 0 and nat[1] == 0) else ("nonfinite" if not (np.isfinite(mean) and np.isfinite(var)) else "nonpositive")
            bad.append((f"node-posterior-improper:{why}",
                        f"[{label}] non-sample node {u}: mean {mean!r}, variance {var!r} (natural parameters {nat.tolist()})"))
            continue
        shape = mean * mean / var
        if not shape <= ms * (1 + CAP_RTOL) * (1 + 1e-9):
            bad.append(("node-shape-above-cap", f"[{label}] node {u}: shape {shape!r} > max_shape {ms}"))
    mpost = fit.mutation_posteriors()
    mm, mv = mpost["mean"], mpost["variance"]
    undefined = np.isnan(mm) & np.isnan(mv)
    okm = undefined | (np.isfinite(mm) & np.isfinite(mv) & (mm > 0) & (mv > 0))
    if not np.all(okm):
        m = int(np.where(~okm)[0][0])
        bad.append(("mutation-posterior-improper", f"[{label}] mutation {m}: mean {mm[m]!r}, variance {mv[m]!r}"))
    ph = fit.mutation_phase
    blocks = fit.mutation_blocks
    okp = np.isnan(ph) | ((ph >= 0.5) & (ph <= 1.0))
    if not np.all(okp):
        m = int(np.where(~okp)[0][0])
        bad.append(("phase-out-of-range", f"[{label}] mutation {m}: phase {ph[m]!r} (block {blocks[m]})"))
    return bad, dict(undefined_mutations=int(undefined.sum()), nan_phase=int(np.isnan(ph).sum()),
                     unphased_singletons=int(np.sum(blocks != -1)))


NOT_MINE = {
    "Use fewer rescaling intervals": "F5-rescaling-intervals",
    "mutation's time must be": "mutation-time-order(C04/C01)",
    "Times must be finite": "nonfinite-times",
}


def date_case(rng, res, stats):
    import tsdate
    ts, kw, label = skip_input(rng)
    if rng.random() < 0.25:
        ts, k = gen.add_root_mutations(ts, rng, k=2)
        label += "+rootmuts"
    if ts.num_mutations == 0:
        return
    ms = float(rng.choice(MAX_SHAPES))
    args = dict(mutation_rate=kw["mutation_rate"], method="variational_gamma", max_iterations=int(rng.choice([1, 2, 5, 10])),
                max_shape=ms, singletons_phased=kw["singletons_phased"], rescaling_intervals=int(rng.choice([0, 0, 1, 3])),
                regularise_roots=bool(rng.random() < 0.7))
    seen = []

    def observer(ep, itkw):
        seen.append(int(np.isnan(ep.edge_logconst).sum() + np.isnan(ep.block_logconst).sum()))

    dating.quiet()
    res.evaluations += 1
    replay = dict(kind="date", ts=gen.ts_to_jsonable(ts), args=args, label=label)
    with E.rebind_observed(observer):
        try:
            _, fit = tsdate.date(ts, return_fit=True, **args)
        except BaseException as e:  # noqa: BLE001
            if isinstance(e, (KeyboardInterrupt, MemoryError)):
                raise
            msg = str(e)
            cls = next((v for k, v in NOT_MINE.items() if k in msg), None) or f"{type(e).__name__}"
            stats["date_raised"][cls] = stats["date_raised"].get(cls, 0) + 1
            return
    stats["date_returned"] += 1
    bad, info = oracle_fit(ts, fit, ms, label)
    for kind, what in bad:
        res.violations.append(Violation(kind, what, replay))
    skipped = int(sum(seen))
    stats["date_skipped_updates"] += skipped
    stats["date_undefined_mutations"] += info["undefined_mutations"]
    stats["date_unphased_singletons"] += info["unphased_singletons"]
    npost = fit.node_posteriors()
    fixed = fit.node_constraints[:, 0] == fit.node_constraints[:, 1]
    with np.errstate(all="ignore"):
        shape = npost["mean"][~fixed] ** 2 / npost["variance"][~fixed]
    capped = bool(np.any(np.isclose(shape, ms, rtol=1e-9)))
    stats["date_capped"] += int(capped)
    stats["date_options"][f"ms={ms:g},resc={args['rescaling_intervals']},phased={args['singletons_phased']}"] = \
        stats["date_options"].get(f"ms={ms:g},resc={args['rescaling_intervals']},phased={args['singletons_phased']}", 0) + 1
    if skipped or capped or info["undefined_mutations"]:
        res.nontrivial.add(common.canon_key([replay["ts"], args]))
    res.sample(dict(source="date()", label=label, nodes=ts.num_nodes, mutations=ts.num_mutations, skipped_updates=skipped,
                    capped=capped, undefined_mutation_posteriors=info["undefined_mutations"],
                    **{k: v for k, v in args.items() if k != "method"}))


def new_stats():
    return dict(kernel_ops={}, kernel_nontrivial=0, rootward_max_ulps=0, iqr_capped=0, iqr_capped_by_rule=0,
                runs=0, run_status={}, hyp_run_without_assert=0, projection_calls=0, skipped_updates=0, capped_runs=0,
                never_updated_nodes_in_kernel_runs=0, ctor_raised={}, date_returned=0, date_raised={},
                date_skipped_updates=0, date_undefined_mutations=0, date_unphased_singletons=0, date_capped=0,
                date_options={})


def run(ctx):
    res = Result()
    import tsdate  # noqa: F401
    dating.quiet()
    stats = new_stats()
    with E.LeanEP() as L:
        c20.kernel_corr(L, ctx.rng(1), res, stats, ctx.n(300, 6000))
        output_kernels(L, ctx.rng(2), res, stats, ctx.n(200, 4000))
        iqr_corr(L, ctx.rng(3), res, stats, ctx.n(120, 2500))
        rng = ctx.rng(4)
        for i in range(ctx.n(24, 400)):
            run_case(L, rng, i, res, stats, perturb=(i % 3 == 2))
    rng = ctx.rng(5)
    for _ in range(ctx.n(40, 800)):
        date_case(rng, res, stats)
    res.rule = ("B: scalar kernels (damp, rescale, gammaMom, momentsOf, flipPhase, reproject) against the real functions, "
                "bit for bit; whole EP runs replayed bit for bit on tree sequences with ancient fixed samples and rate "
                "scales 1..1e40, unphased/twin blocks, sparse mutations, and on perturbed static data (counts x1e3..1e9), "
                "max_shape {1.5,2,10,1000}; PostOK evaluated on the implementation's arrays after every iteration. "
                "C: tsdate.date(return_fit=True) over max_iterations {1,2,5,10} x max_shape x rescaling_intervals "
                "{0,1,3} x phased/unphased; node/mutation posteriors and phases checked against the statement "
                "(cap met up to rounding: shape <= max_shape*(1+1e-12)). Non-trivial = at least one update skipped "
                "(NaN), or a posterior capped at max_shape, or an undefined mutation posterior; distinct by hash of "
                "input and options.")
    res.extra = dict(input_distribution=stats,
                     hypothesis_hit_rates=dict(run_completed_without_assert=f"{stats['hyp_run_without_assert']}/{stats['runs']}"))
    return res


def search(ctx):
    res = Result()
    stats = new_stats()
    rng = ctx.rng(6)
    for _ in range(ctx.n(15, 100)):
        date_case(rng, res, stats)
    return res


def replay(ctx, payload):
    import tsdate
    d = payload.get("input") or payload.get("correspondence_input")
    dating.quiet()
    if d.get("kind") == "kernel":
        args = [h2f(a) for a in d["args"]]
        with E.LeanEP() as L:
            print("model:", E.run_ops(L, [(d["op"], args)])[0], "args:", args)
        return False
    if d.get("kind") == "date":
        ts = gen.ts_from_jsonable(d["ts"])
        try:
            _, fit = tsdate.date(ts, return_fit=True, **d["args"])
        except Exception as e:  # noqa: BLE001
            print(f"date(): raised {type(e).__name__}: {e}")
            return False
        bad, info = oracle_fit(ts, fit, d["args"]["max_shape"], "replay")
        print("node natural parameters:", fit.node_posterior.tolist())
        print("violations:", bad, info)
        return not bad
    st = E.static_from_replay(d)
    opts = d["opts"]
    impl_states, impl_status = E.run_impl(E.RawEP(st), **opts)
    with E.LeanEP() as L:
        out = E.run_model(L, 0, st, **opts)
    print("implementation:", impl_status, impl_states[-1]["post"].tolist() if impl_states else None)
    print("model         :", out["status"], out["states"][-1]["post"].reshape(-1, 2).tolist() if out["states"] else None)
    bad = [b for s in impl_states for b in post_ok(s["post"], st["fixed"], opts["max_shape"])]
    print("PostOK violations on the implementation:", bad)
    return not bad and not E.compare(impl_states, impl_status, out)
