"""
C04 — reported posteriors in metadata equal the fit object's posteriors.

A  Props/C04: result wiring regenerated from core.py / variational.py (translate/results.py) and
   re-proved by `decide`; metadata rows = the moment arrays (nodes row by row, mutations by identity);
   maximization writes nothing; to_probabilities / mean_var theorems over an ordered field.
B  (i) the Lean `meanVar` / `toProb` are executed at Rat (exact) and Float on real posterior grids and
   compared with the real `DiscreteTimeMethod.mean_var` / `NodeTimeValues.to_probabilities`;
   (ii) the Lean `getModifiedTs` is run on the real tables + real Results of return_fit=True runs and
   its decoded metadata (mn/vr as float bit patterns) compared with the real output.
C  oracle on real runs with return_fit=True, set_metadata in {None, True}: decoded metadata vs
   fit.node_posteriors() / fit.mutation_posteriors() bitwise (mutations matched by identity);
   inside_outside grid rows non-negative and summing to one, mn/vr = their mean/variance, samples
   exact with zero variance; maximization writes no time metadata.
"""

import math
from collections import Counter
from fractions import Fraction

import numpy as np

from .. import common, dating, pipeline_corr as pc
from ..common import Result, Violation, f2h, f2q, h2f, q2frac
from . import c02

META = dict(
    level='Lean theorems: result wiring of the three run() methods, of get_modified_ts and of node_posteriors/mutation_posteriors regenerated from the source and re-proved each run (metadata arrays are the very moment arrays the posteriors are built from; inside_outside summarises the grid after to_probabilities; maximization passes no variance); for the executable model of set_time_metadata/get_modified_ts, all inputs: whenever metadata is written, decoding node row i gives (mean[i], var[i]) and the multiset of (mutation identity, (mn, vr)) equals the input mutations paired with the mutation arrays (codec round trip as hypothesis); no variance => nothing written; to_probabilities rows sum to one and stay non-negative, mean_var = mean/variance of the normalised row (= second moment minus squared mean), fixed nodes -> (exact time, 0), over any ordered field. Models executed against the real functions (Rat exact, Float) and against real date() outputs. The mutation identity theorem holds for any mutation_node array (phased or not). Rounding of numpy reductions only by tolerance.',
    note='Lean kernel + {propext, Classical.choice, Quot.sound}; wiring translator (ast); sampled correspondence; JSON float round trip checked bitwise on every run; exact-arithmetic theorems',
    technique='regenerated wiring + row-wise refinement theorem + model executed at Rat/Float against real posteriors',
    ref='§3 C04',
)
LEAN_PROPS = ["TsdateVerif.Props.C04"]
LEAN_BUILD = ["TsdateVerif.Model.Proto"]
TRANSLATORS = ["results"]
ASSUMPTIONS = [
    "tskit's JSON metadata codec round-trips Python floats exactly (hypothesis CodecRoundTrips; observed bitwise on every generated case)",
    "numpy reductions (sum) differ from exact arithmetic only by rounding: real mean_var / to_probabilities are compared with the exact Rat model within rtol 1e-12 (observed maximum, about 1e-15, reported in the evidence)",
    "tskit sort contract as in C02",
]

RTOL = 1e-9          # oracle (math.fsum recomputation vs numpy)
RTOL_MODEL = 1e-12   # model vs real function (observed <= 8e-16)


def relerr(a, b):
    if a == b:
        return 0.0
    if math.isnan(a) or math.isnan(b):
        return 0.0 if (math.isnan(a) and math.isnan(b)) else math.inf
    return abs(a - b) / max(abs(a), abs(b), 1e-300)


# ----------------------------------------------------------------------------- B(i): mean_var / to_probabilities

def meanvar_block(cid, carrier, times, nodes):
    enc = f2h if carrier == "float" else f2q
    lines = [f"case {cid}", "op meanvar", f"carrier {carrier}", "times " + " ".join(enc(x) for x in times)]
    for fixed_time, row in nodes:
        lines.append("fixed " + enc(fixed_time) if row is None else "row " + " ".join(enc(x) for x in row))
    return "\n".join(lines + ["end"]) + "\n"


def toprob_block(cid, carrier, row):
    enc = f2h if carrier == "float" else f2q
    return "\n".join([f"case {cid}", "op toprob", f"carrier {carrier}", "row " + " ".join(enc(x) for x in row), "end"]) + "\n"


def grid_correspondence(res, stats, grids):
    """grids: list of (ts, posterior NodeTimeValues (probabilities), replay)."""
    from tsdate.core import DiscreteTimeMethod
    blocks, expect = [], {}
    cid = 0
    rng = np.random.default_rng(12345)
    for ts, post, replay in grids:
        times = np.asarray(post.timepoints, dtype=float)
        nonfixed = set(int(u) for u in post.nonfixed_nodes)
        nodes = [(float(ts.nodes_time[u]), None) if u not in nonfixed else (0.0, np.asarray(post[u], dtype=float))
                 for u in range(ts.num_nodes)]
        mn, va = DiscreteTimeMethod.mean_var(ts, post)
        for carrier in ("rat", "float"):
            blocks.append(meanvar_block(cid, carrier, times, nodes))
            expect[str(cid)] = ("meanvar", carrier, mn, va, replay)
            cid += 1
        # the same function on a synthetic grid over the same nodes/timepoints (mass at every timepoint,
        # including time 0, which real posteriors of internal nodes never have)
        synth = post.clone_with_new_data(grid_data=rng.uniform(0.0, 1.0, size=post.grid_data.shape) ** 3, fixed_data=np.nan)
        snodes = [(float(ts.nodes_time[u]), None) if u not in nonfixed else (0.0, np.asarray(synth[u], dtype=float))
                  for u in range(ts.num_nodes)]
        smn, sva = DiscreteTimeMethod.mean_var(ts, synth)
        for carrier in ("rat", "float"):
            blocks.append(meanvar_block(cid, carrier, times, snodes))
            expect[str(cid)] = ("meanvar", carrier, smn, sva, replay)
            cid += 1
        # to_probabilities on an un-normalised copy of the real grid
        raw = post.grid_data * rng.uniform(0.1, 50.0, size=(post.grid_data.shape[0], 1))
        clone = post.clone_with_new_data(grid_data=raw.copy(), fixed_data=np.nan)
        clone.to_probabilities()
        for i in range(min(3, raw.shape[0])):
            for carrier in ("rat", "float"):
                blocks.append(toprob_block(cid, carrier, raw[i]))
                expect[str(cid)] = ("toprob", carrier, clone.grid_data[i], None, replay)
                cid += 1
    if not blocks:
        return
    worst = dict(rat=0.0, float=0.0)
    for ln in common.lean_driver("Pipeline", "".join(blocks)):
        w = ln.split()
        if not w:
            continue
        kind, carrier, a, b, replay = expect[w[0]]
        res.evaluations += 1
        dec = (lambda s: h2f(s)) if carrier == "float" else (lambda s: float(q2frac(s)))
        if w[1:] == ["bad-op"]:
            res.corr_failures.append(Violation("meanvar-model-differs", f"{kind}/{carrier}: model rejected a real posterior grid", replay, stage="B"))
            continue
        vals = [dec(x) for x in w[1:]]
        if kind == "meanvar":
            got = list(zip(vals[0::2], vals[1::2]))
            want = list(zip(a, b))
        else:
            got, want = [(v,) for v in vals], [(x,) for x in a]
        if len(got) != len(want):
            res.corr_failures.append(Violation("meanvar-model-differs", f"{kind}/{carrier}: {len(got)} vs {len(want)} entries", replay, stage="B"))
            continue
        err = max((relerr(float(g), float(x)) for gg, ww in zip(got, want) for g, x in zip(gg, ww)), default=0.0)
        worst[carrier] = max(worst[carrier], err)
        if err > RTOL_MODEL:
            res.corr_failures.append(Violation("meanvar-model-differs",
                                               f"{kind}/{carrier}: real function differs from the Lean model by rel. {err:.3g}", replay, stage="B"))
        else:
            stats["grid_cases_ok"] += 1
    stats["max_rel_err_rat"] = max(stats.get("max_rel_err_rat", 0.0), worst["rat"])
    stats["max_rel_err_float"] = max(stats.get("max_rel_err_float", 0.0), worst["float"])


# ----------------------------------------------------------------------------- C: oracle

def _md(table_row_md):
    return table_row_md if isinstance(table_row_md, dict) else None


def bits(x):
    return f2h(float(x))


def writable(table_in, sm):
    """would set_time_metadata write on this input table? (documented policy, not the model)"""
    sch = table_in.metadata_schema.schema
    empty = len(table_in.metadata) == 0
    if sm is True:
        return True
    if sch is None:
        return empty
    return None      # depends on whether the schema accepts mn/vr: decided by looking at the output


def oracle(ts, out, fit, method, kw):
    bad = []
    sm = kw.get("set_metadata")
    a, b = ts.dump_tables(), out.dump_tables()
    nmd = [n.metadata for n in out.nodes()] if b.nodes.metadata_schema.schema is not None else [None] * out.num_nodes
    has_mn = [isinstance(d, dict) and "mn" in d and "vr" in d for d in nmd]
    if method == "maximization":
        if not np.array_equal(a.nodes.metadata, b.nodes.metadata):
            bad.append(("maximization-wrote-time-metadata", "node metadata changed although maximization has no posterior variance"))
        def mrows(t):      # mutation rows by identity (sort may permute the rows of a site)
            md = c02._ragged(t.mutations.metadata, t.mutations.metadata_offset)
            ds = c02._ragged(t.mutations.derived_state, t.mutations.derived_state_offset)
            return Counter(zip(t.mutations.site.tolist(), t.mutations.node.tolist(), ds, md))
        if a.nodes.metadata_schema != b.nodes.metadata_schema or a.mutations.metadata_schema != b.mutations.metadata_schema \
                or mrows(a) != mrows(b):
            bad.append(("maximization-wrote-time-metadata", "schema or mutation metadata changed under maximization"))
        return bad, "maximization"
    w = writable(a.nodes, sm)
    if not all(has_mn):
        if w is True or any(has_mn):
            bad.append(("metadata-missing-although-writable", f"{sum(has_mn)}/{len(has_mn)} nodes carry mn/vr (set_metadata={sm})"))
        return bad, "not-written"
    if method == "variational_gamma":
        post = fit.node_posteriors()
        diff = [u for u in range(out.num_nodes)
                if bits(nmd[u]["mn"]) != bits(post["mean"][u]) or bits(nmd[u]["vr"]) != bits(post["variance"][u])]
        if diff:
            u = diff[0]
            bad.append(("vg-node-metadata-differs-from-node-posteriors",
                        f"{len(diff)} node(s); node {u}: metadata ({nmd[u]['mn']!r}, {nmd[u]['vr']!r}) vs posteriors ({post['mean'][u]!r}, {post['variance'][u]!r})"))
        # samples: exact time, zero variance
        for u in ts.samples():
            if bits(nmd[u]["mn"]) != bits(ts.nodes_time[u]) or float(nmd[u]["vr"]) != 0.0:
                bad.append(("sample-node-not-exact-time-zero-variance", f"sample {u}: mn={nmd[u]['mn']!r} vr={nmd[u]['vr']!r} time={ts.nodes_time[u]!r}"))
                break
        # mutations by identity
        if b.mutations.metadata_schema.schema is not None:
            mmd = [m.metadata for m in out.mutations()]
            if all(isinstance(d, dict) and "mn" in d and "vr" in d for d in mmd):
                mp = fit.mutation_posteriors()
                mapping = np.asarray(fit.mutation_mapping())
                ds_in = [m.derived_state for m in ts.mutations()]
                want = Counter((int(ts.mutations_site[i]), int(mapping[i]), ds_in[i], bits(mp["mean"][i]), bits(mp["variance"][i]))
                               for i in range(ts.num_mutations))
                got = Counter((int(m.site), int(m.node), m.derived_state, bits(m.metadata["mn"]), bits(m.metadata["vr"]))
                              for m in out.mutations())
                if want != got:
                    bad.append(("vg-mutation-metadata-differs-from-mutation-posteriors",
                                f"{sum((want - got).values())} mutation(s) whose (site, node, state, mn, vr) is not in the output"))
            elif writable(a.mutations, sm) is True:
                bad.append(("metadata-missing-although-writable", "mutations carry no mn/vr although set_metadata=True"))
        return bad, "vg-written"
    # inside_outside
    grid = fit.posterior_grid
    times = np.asarray(grid.timepoints, dtype=float)
    nonfixed = set(int(u) for u in grid.nonfixed_nodes)
    for u in range(ts.num_nodes):
        if u not in nonfixed:
            if bits(nmd[u]["mn"]) != bits(ts.nodes_time[u]) or float(nmd[u]["vr"]) != 0.0:
                bad.append(("sample-node-not-exact-time-zero-variance", f"fixed node {u}: mn={nmd[u]['mn']!r} vr={nmd[u]['vr']!r}"))
                break
            continue
        row = np.asarray(grid[u], dtype=float)
        if np.any(row < 0) or np.any(np.isnan(row)):
            bad.append(("io-grid-row-negative", f"node {u}: posterior grid row has a negative or NaN entry"))
            break
        s = math.fsum(row)
        if abs(s - 1.0) > 1e-9:
            bad.append(("io-grid-row-not-normalised", f"node {u}: posterior grid row sums to {s!r}"))
            break
        mean = math.fsum(p * t for p, t in zip(row, times)) / s
        var = math.fsum(p * (t - mean) ** 2 for p, t in zip(row, times)) / s
        if relerr(mean, float(nmd[u]["mn"])) > RTOL or abs(var - float(nmd[u]["vr"])) > RTOL * max(var, mean * mean, 1e-300):
            bad.append(("io-metadata-not-mean-var-of-grid",
                        f"node {u}: metadata ({nmd[u]['mn']!r}, {nmd[u]['vr']!r}) vs grid mean/var ({mean!r}, {var!r})"))
            break
    # node_posteriors() is the same grid
    npst = fit.node_posteriors()
    arr = np.array(npst.tolist(), dtype=float).reshape(ts.num_nodes, -1)
    for u in nonfixed:
        if not np.array_equal(arr[u], np.asarray(grid[u], dtype=float)):
            bad.append(("io-node-posteriors-not-the-grid", f"node {u}: node_posteriors() row differs from posterior_grid"))
            break
    return bad, "io-written"


# ----------------------------------------------------------------------------- run

def draw(rng):
    method = str(rng.choice(c02.METHODS, p=[0.45, 0.4, 0.15]))
    unphased = method == "variational_gamma" and rng.random() < 0.3
    ts, info = pc.rich_ts(rng, discrete_ok=(method != "variational_gamma") or rng.random() < 0.6, unphased=unphased)
    kw = dating.method_options(rng, method, info)
    kw["mutation_rate"] = info["mu"]
    if method == "variational_gamma":
        kw.setdefault("rescaling_intervals", int(rng.choice([0, 1, 3])))
        kw["max_iterations"] = int(rng.choice([1, 2, 5]))
        if unphased:
            kw["singletons_phased"] = False
    if rng.random() < 0.5:
        kw["set_metadata"] = True
    kw["return_fit"] = True
    return method, ts, info, kw


def one_case(rng, res, stats, blocks, pending, grids, cid):
    method, ts, info, kw = draw(rng)
    if ts.num_mutations == 0:
        return
    with pc.capture_pipeline() as calls:
        r = dating.run_date(ts, method=method, **kw)
    res.evaluations += 1
    stats["methods"][method] = stats["methods"].get(method, 0) + 1
    replay = dict(kind="date", ts=pc.ts_to_b64(ts), method=method, kw=kw)
    if not r["ok"]:
        key = f"{r['exc']}: {r['msg'][:50]}"
        stats["raised"][key] = stats["raised"].get(key, 0) + 1
        return
    out, fit = r["out"]
    bad, cls = oracle(ts, out, fit, method, kw)
    stats["classes"][cls] = stats["classes"].get(cls, 0) + 1
    for kind, what in bad:
        res.violations.append(Violation(kind, f"{method}: {what}", replay))
    if cls in ("vg-written", "io-written"):
        res.nontrivial.add(common.canon_key([replay["ts"][:2000], method, sorted((k, repr(v)) for k, v in kw.items())]))
        # observation recorded in the evidence: did sort() permute mutation ids?
        if not np.array_equal(ts.mutations_node, out.mutations_node) and kw.get("singletons_phased") is not False:
            stats["mutation_ids_permuted_by_sort"] += 1
    if method == "inside_outside" and len(grids) < 12:
        grids.append((ts, fit.posterior_grid, replay))
    rec = calls[-1]
    t_in = ts.dump_tables()
    blocks.append((str(cid), pc.encode_case(cid, t_in, kw, rec["result"], rec["newtimes"])))
    pending[str(cid)] = dict(out=out, n_prov=t_in.provenances.num_rows, replay=replay, method=method, kw=kw,
                             hnode=bool(np.array_equal(rec["result"].mutation_node, t_in.mutations.node)))
    res.sample(dict(method=method, kw={k: repr(v) for k, v in kw.items()}, nodes=ts.num_nodes, muts=ts.num_mutations,
                    md_nodes=info["md_nodes"], md_muts=info["md_muts"], outcome=cls))


def new_stats():
    s = c02.new_stats()
    s.update(classes={}, grid_cases_ok=0, mutation_ids_permuted_by_sort=0)
    return s


def run(ctx):
    import tsdate  # noqa: F401
    res = Result()
    stats = new_stats()
    rng = ctx.rng(1)
    blocks, pending, grids = [], {}, []
    for cid in range(ctx.n(45, 500)):
        one_case(rng, res, stats, blocks, pending, grids, cid)
    c02.compare_with_model(res, stats, blocks, pending)
    grid_correspondence(res, stats, grids)
    res.rule = ("real date(return_fit=True, set_metadata in {None, True}) on generated inputs with metadata/schema variants, "
                "3 methods, (un)phased singletons; B: Lean meanVar/toProb at Rat and Float vs real mean_var/to_probabilities on "
                "real posterior grids (rtol 1e-12), Lean getModifiedTs vs real output (metadata decoded, mn/vr as bit patterns); "
                "C: metadata vs fit.node_posteriors()/mutation_posteriors() bitwise, grid rows, samples, maximization. "
                "Non-trivial = time metadata was written and compared; distinct by hash of (input, method, options).")
    res.extra = dict(input_distribution=stats,
                     hypothesis_hit_rates=dict(mutation_node_is_input=f"{stats['hyp_mutation_node_is_input']}/{len(pending)}"))
    return res


def search(ctx):
    res = Result()
    stats = new_stats()
    rng = ctx.rng(3)
    blocks, pending, grids = [], {}, []
    for cid in range(ctx.n(15, 50)):
        one_case(rng, res, stats, blocks, pending, grids, cid)
    return res


def replay(ctx, payload):
    d = payload.get("input") or payload.get("correspondence_input")
    ts = pc.ts_from_b64(d["ts"])
    r = dating.run_date(ts, method=d["method"], **d["kw"])
    print("date():", "returned" if r["ok"] else f"raised {r['exc']}: {r['msg']}")
    if not r["ok"]:
        return False
    out, fit = r["out"]
    bad, cls = oracle(ts, out, fit, d["method"], d["kw"])
    print("class:", cls)
    print("oracle on implementation:", bad or "metadata equals the fit object's posteriors")
    return not bad
