"""
C28 — preprocessing removes only data-free regions and preserves genotypes.

A  theorems in Props/C28 about the Lean model of the option handling + interval logic of `preprocess_ts`.
B  the model's plan (ValueError kind | interval list, resolved options) vs what the real function does: the list it
   hands to `tables.delete_intervals` (captured by rebinding), whether it splits, what it records in provenance —
   intervals compared bit-for-bit (Float model, same IEEE operations).
C  the statement on the returned tree sequence: sites kept, samples kept in order, decoded genotypes, node times,
   topology removed only inside the deleted regions and untouched elsewhere, output simplified, contiguity.
"""

import numpy as np

from .. import common, preprocess_corr as pc
from ..common import Result, Violation

META = dict(
    level='Lean theorems over the executable model of preprocess_ts\'s option handling and interval logic (all site lists, sequence lengths, minimum_gap, option combinations; ordered field): a computed interval is exactly a non-empty left/right flank (only with erase_flanks or its deprecated alias) or the interior [s+1, s\'-1) of a gap between adjacent sites >= minimum_gap; every site keeps a unit margin to every computed interval (no site deleted); the list is sorted, non-empty intervals, pairwise disjoint, inside [0, L]; user delete_intervals pass through unchanged; exact characterisation of the three ValueErrors, defaults and alias. Model tied to the code on the captured argument of tables.delete_intervals (bit-for-bit), the split switch and the provenance record. Partial: what tskit delete_intervals/simplify/sort do with the list (genotypes, samples, times, simplification) is by contract and split_disjoint is C29; both are checked on every generated input by the oracle.',
    note='Lean kernel + {propext, Classical.choice, Quot.sound}; sampled bit-exact correspondence; tskit by contract; C29 for the split',
    technique='membership characterisation + permutation-invariant separation lemma for the sorted list + exhaustive case split on options; bit-exact model/implementation correspondence',
    ref='§3 C28',
)
LEAN_PROPS = ["TsdateVerif.Props.C28"]
LEAN_BUILD = ["TsdateVerif.Model.Proto"]
ASSUMPTIONS = [
    "tskit: site positions are strictly increasing; delete_intervals removes exactly the listed half-open intervals; simplify keeps samples, their genotypes and node times",
    "sorted(key=x[0]) is a stable sort (model: List.mergeSort)",
    "theorems over an ordered field; the Float instance is tied bit-for-bit (x-1, x+1, differences and comparisons are the same IEEE operations)",
]


def run_batch(ctx, n, stream, res, stats):
    import tsdate  # noqa: F401
    pc.quiet()
    rng = ctx.rng(stream)
    cases, impls = [], []
    while len(cases) < n:
        ts, info = pc.gen_input(rng)
        for _ in range(int(rng.integers(1, 4))):
            kw = pc.gen_options(rng, ts)
            r = pc.run_impl(ts, kw)
            cases.append((ts, kw))
            impls.append(r)
            res.evaluations += 1
            for k in kw:
                stats["options"][k] = stats["options"].get(k, 0) + 1
            for f in info["fired"]:
                stats["fired"][f] = stats["fired"].get(f, 0) + 1
            if not r["ok"]:
                key = pc.ERR_OF_MSG.get(r["msg"], r["exc"])
                stats["raised"][key] = stats["raised"].get(key, 0) + 1
            else:
                d = r["rec"]["delete_intervals"] or []
                stats["intervals_deleted"] += len(d)
                stats["split_called"] += int(r["rec"]["split_called"])
                if r["rec"]["split_called"] and r["out"].num_nodes > r["rec"]["pre_split_nodes"]:
                    stats["split_made_new_nodes"] += 1
                if d:
                    res.nontrivial.add(common.canon_key([pc.sc.ts_b64(ts)[:200], sorted((k, repr(v)) for k, v in kw.items())]))
                res.sample(dict(sites=ts.num_sites, trees=ts.num_trees, L=ts.sequence_length, options={k: repr(v) for k, v in kw.items()},
                                deleted=d[:4], out_nodes=r["out"].num_nodes, out_trees=r["out"].num_trees))
            for kind, what in pc.oracle(ts, kw, r):
                res.violations.append(Violation(kind, what + f" [options {kw}]", pc.replay_of(ts, kw)))
    res.corr_failures += pc.compare(cases, impls)
    # hypothesis of the theorems: strictly increasing sites inside [0, L)
    hyp = sum(int(np.all(np.diff(ts.sites_position) > 0) and (ts.num_sites == 0 or (ts.sites_position[0] >= 0 and ts.sites_position[-1] < ts.sequence_length)))
              for ts, _ in cases)
    stats["hyp_sites_sorted_in_range"] = f"{hyp}/{len(cases)}"


def new_stats():
    return dict(options={}, fired={}, raised={}, intervals_deleted=0, split_called=0, split_made_new_nodes=0)


RULE = ("B+C: preprocess_ts on generated tree sequences (msprime +- historical samples, polytomies, internal gaps, mutations on "
        "isolated nodes, no sites, non-integer coordinates) x minimum_gap (incl. exact site spacings and their successors, 0, "
        "negative) x erase_flanks x deprecated remove_telomeres x user delete_intervals x split_disjoint x record_provenance x "
        "filter flags x keep_unary; B compares the captured delete_intervals argument (bit-for-bit), split switch, provenance "
        "parameters and error kinds with the Lean model; C checks the statement on the output. Non-trivial = at least one "
        "interval was deleted; distinct by hash of input and options.")


def run(ctx):
    res = Result()
    stats = new_stats()
    run_batch(ctx, ctx.n(100, 2000), 1, res, stats)
    res.rule = RULE
    res.extra = dict(input_distribution=stats)
    return res


def search(ctx):
    res = Result()
    stats = new_stats()
    run_batch(ctx, ctx.n(40, 100), 9, res, stats)
    res.corr_failures = []
    return res


def replay(ctx, payload):
    import tsdate  # noqa: F401
    pc.quiet()
    d = payload["input"] if "input" in payload else payload.get("correspondence_input")
    ts, kw = pc.case_from_replay(d)
    r = pc.run_impl(ts, kw)
    print("options:", kw)
    print("implementation:", (r["rec"]["delete_intervals"], "split" if r["rec"]["split_called"] else "no split") if r["ok"]
          else f"raised {r['exc']}: {r['msg']}")
    print("model         :", pc.run_model([(ts, kw)]).get(0))
    fails = pc.compare([(ts, kw)], [r])
    bad = pc.oracle(ts, kw, r)
    print("statement:", bad or "holds", "| correspondence:", "differs" if fails else "identical")
    return not fails and not bad
