"""
C21 — EP message bookkeeping is consistent after every iteration.

A  theorems in Props/C21 over the model of `tsdate/variational.py` (Model/EP.lean): the identity
   posterior[n] = scale[n] * (sum of edge/block messages to n + node factors) holds initially and is preserved by
   every branch of propagate_likelihood for ANY projection result, any damping, by propagate_prior for any penalty
   and by _rescale_factors (after which scale = 1 and posteriors are unchanged); fixed nodes are never written;
   lifted by induction over edge order and iterations.
B  the Lean model (Float carrier, same IEEE operations in the same order) replays every iteration of the real numba
   code; the projections are answered by the real tsdate.approx wrappers over the line protocol; states compared
   bit for bit after every iteration (factors.node/edge/block/scale, node_posterior, and the model's `assemble`
   against the repository's `_assemble_factors`).  A second run over Rat checks that the model's identity is exact.
C  oracle on the implementation: after every real `iterate` (standalone objects and iterations observed inside real
   tsdate.date() calls through a rebinding subclass) `_assemble_factors(factors) == node_posterior`, scales are 1,
   fixed nodes unwritten.
"""

import numpy as np

from .. import common, dating, gen
from .. import ep_corr as E
from ..common import Result, Violation

META = dict(
    level='Lean theorems over a model of the EP state and of every update branch of tsdate/variational.py with the projection functions as arbitrary parameters (all inputs, edge orders, iteration counts, dampings, max_shape > 1, phased/unphased, with/without regularisation): posterior = scale * (sum of messages + node factors) is an invariant; _rescale_factors leaves posteriors unchanged and resets scales; fixed nodes are never written. Model tied to the numba code bit-for-bit at Float after every iteration (projections answered by the real approx wrappers). Full in exact arithmetic; rounding is outside the theorem (observed 1e-16).',
    note='Lean kernel + {propext, Classical.choice, Quot.sound}; sampled bit-exact correspondence of the hand-written model incl. the EM loop of propagate_prior; the driver executes the monadic iterate of the model itself (proved equal to iterate at the identity monad); only its three effect handlers are trusted; theorems are about exact arithmetic',
    technique='loop invariant by induction over edge order and iterations, projections as parameters + bit-exact replay against the numba kernels',
    ref='§3 C21',
)
LEAN_PROPS = ["TsdateVerif.Props.C21"]
LEAN_BUILD = ["TsdateVerif.Model.EPRun"]
ASSUMPTIONS = [
    "max_shape > 1 (enforced by VariationalGammaMethod.run since fix 717a3e6)",
    "node ids and edge/block orders index into the arrays (SchedOK; evaluated on every generated input)",
    "exact arithmetic in the theorems; Float model tied bit-for-bit to the numba kernels on generated inputs",
]

MAX_SHAPES = [1.5, 2.0, 10.0, 1000.0]


def options(rng):
    return dict(max_shape=float(rng.choice(MAX_SHAPES)), regularise=bool(rng.random() < 0.5),
                iters=int(rng.choice([1, 2, 3, 5])))


def record(res, stats, st, opts, label, out, impl_states, source):
    br = E.branch_counts(st)
    for k, v in br.items():
        stats["branches"][k] = stats["branches"].get(k, 0) + v
    stats["labels"][label] = stats["labels"].get(label, 0) + 1
    stats["max_shape"][str(opts["max_shape"])] = stats["max_shape"].get(str(opts["max_shape"]), 0) + 1
    stats["regularise"][str(opts["regularise"])] = stats["regularise"].get(str(opts["regularise"]), 0) + 1
    nskip = sum(1 for c in out["calls"] if c[2])
    ntiny = sum(s["tiny"] for s in out["states"])
    stats["projection_calls"] += len(out["calls"])
    stats["skipped_updates"] += nskip
    stats["tiny_renormalisations"] += ntiny
    stats["hyp_sched_ok"] += int(E.sched_ok(st))
    stats["hyp_free_not_fixed"] += int(E.free_excludes_fixed(st))
    capped = any(np.any(np.isclose(s["post"][:, 0] + 1, opts["max_shape"], rtol=1e-9)) for s in impl_states)
    stats["capped_runs"] += int(capped)
    kinds = set(c[0] for c in out["calls"])
    nontrivial = len(out["calls"]) > 0 and (len(kinds) >= 2 or capped or nskip > 0 or ntiny > 0)
    if nontrivial:
        res.nontrivial.add(common.canon_key([E.state_replay(st), opts]))
    res.sample(dict(source=source, label=label, nodes=int(st["fixed"].size), edges=int(st["ep"].size),
                    blocks=int(st["bj"].size), branches=br, projection_calls=len(out["calls"]), skipped=nskip,
                    tiny=ntiny, capped=bool(capped), **opts))


def one_case(L, rng, cid, res, stats, raw_perturb=False):
    import tsdate.variational as V
    bigstar = raw_perturb and rng.random() < 0.2
    ts, kw, label = E.gen_input(rng, want="bigstar" if bigstar else None)
    if (ts.num_mutations == 0 and not bigstar) or ts.num_edges == 0:
        return
    try:
        ep = V.ExpectationPropagation(ts, **kw)
    except Exception as e:  # noqa: BLE001   (constructor rejections are data: unary nodes etc.)
        stats["ctor_raised"][type(e).__name__] = stats["ctor_raised"].get(type(e).__name__, 0) + 1
        return
    st = E.static_of(ep)
    opts = options(rng)
    source = "ExpectationPropagation(ts)"
    replay = dict(E.state_replay(st), opts=opts, label=label)
    if bigstar:
        opts["max_shape"] = float(rng.choice([1.5, 2.0]))
    if raw_perturb:
        st, what = E.perturb_static(rng, st, huge=bigstar)
        label = label + "+" + "+".join(what)
        obj = E.RawEP(st)
        source = "numba kernels on perturbed static data"
        replay = dict(E.state_replay(st), opts=opts, label=label)
    else:
        obj = ep
        replay["ts"] = gen.ts_to_jsonable(ts)
        replay["ctor"] = kw
    impl_states, impl_status = E.run_impl(obj, **opts)
    res.evaluations += 1
    if not raw_perturb:
        # the transcription of `iterate` used for perturbed inputs must agree with the real `iterate` bit for bit
        raw_states, raw_status = E.run_impl(E.RawEP(st), **opts)
        same = raw_status == impl_status and len(raw_states) == len(impl_states) and all(
            not E.states_equal_bits(a, b) for a, b in zip(impl_states, raw_states))
        if not same:
            res.corr_failures.append(Violation("rawep-transcription-differs",
                                               "harness transcription of iterate() differs from the real iterate()",
                                               replay, stage="B"))
    if impl_status != "DONE":
        stats["impl_raised"][impl_status] = stats["impl_raised"].get(impl_status, 0) + 1
    out = E.run_model(L, cid, st, **opts)
    diffs = E.compare(impl_states, impl_status, out)
    if diffs:
        res.corr_failures.append(Violation("ep-model-differs", f"[{label}] " + "; ".join(diffs[:3]), replay, stage="B"))
    tag = ("unphased" if st["bj"].size else "phased") + (":reg" if opts["regularise"] else ":noreg")
    for kind, what in E.oracle_bookkeeping(st, impl_states, tag):
        res.violations.append(Violation(kind, f"[{label}] {what}", replay))
    record(res, stats, st, opts, label, out, impl_states, source)


def rat_case(holder, rng, cid, res, stats):
    """The model over Rat: the identity must hold *exactly* (this exercises the theorem's statement on the model).
    Exact rationals can grow very fast, so inputs are tiny and each run has its own driver with a 20 s watchdog."""
    import tsdate.variational as V
    ts, kw, label = E.gen_input(rng, want=str(rng.choice(["plain", "unphased", "twin", "historical"])))
    if ts.num_mutations == 0 or ts.num_edges == 0 or ts.num_edges > 16:
        return
    try:
        ep = V.ExpectationPropagation(ts, **kw)
    except Exception:  # noqa: BLE001
        return
    st = E.static_of(ep)
    opts = dict(max_shape=float(rng.choice([2.0, 10.0])), regularise=bool(rng.random() < 0.5), iters=1)
    res.evaluations += 1
    stats["rat_runs"] += 1
    if holder.get("L") is None:
        holder["L"] = E.LeanEP()
    try:
        out = E.run_model(holder["L"], cid, st, mode="rat", timeout=20, **opts)
    except E.LeanTimeout:
        stats["rat_timeouts"] = stats.get("rat_timeouts", 0) + 1
        holder["L"] = None            # the driver was killed by the watchdog
        return
    if out["status"] == "DONE" and not all(s["exact"] for s in out["states"]):
        res.corr_failures.append(Violation("rat-model-identity-inexact",
                                           "Lean model over Rat: posterior != scale*assemble exactly (theorem C21 "
                                           "would be contradicted by its own model)",
                                           dict(E.state_replay(st), opts=opts, label=label, mode="rat"), stage="B"))
    stats["rat_exact"] += int(out["status"] == "DONE" and all(s["exact"] for s in out["states"]))


def date_case(rng, res, stats):
    """Iterations observed inside a real tsdate.date() call (no source hook: rebinding subclass)."""
    import tsdate
    ts, kw, label = E.gen_input(rng)
    if ts.num_mutations == 0:
        return
    seen = []

    def observer(ep, itkw):
        seen.append((E.static_of(ep) if not seen else None, E.dump_with_asm(ep), dict(itkw)))

    ms = float(rng.choice(MAX_SHAPES))
    reg = bool(rng.random() < 0.6)
    args = dict(mutation_rate=kw["mutation_rate"], method="variational_gamma", max_iterations=int(rng.choice([1, 2, 4])),
                max_shape=ms, regularise_roots=reg, singletons_phased=kw["singletons_phased"],
                rescaling_intervals=int(rng.choice([0, 0, 1, 2])))
    dating.quiet()
    status = "returned"
    with E.rebind_observed(observer):
        try:
            tsdate.date(ts, **args)
        except BaseException as e:  # noqa: BLE001
            if isinstance(e, (KeyboardInterrupt, MemoryError)):
                raise
            status = f"{type(e).__name__}: {str(e)[:60]}"
    res.evaluations += 1
    stats["date_status"][status.split(":")[0]] = stats["date_status"].get(status.split(":")[0], 0) + 1
    if not seen:
        return
    st = seen[0][0]
    states = [s for _, s, _ in seen]
    stats["date_iterations_observed"] += len(states)
    tag = ("unphased" if st["bj"].size else "phased") + (":reg" if reg else ":noreg")
    replay = dict(kind="date", ts=gen.ts_to_jsonable(ts), args=args, label=label)
    for kind, what in E.oracle_bookkeeping(st, states, tag):
        res.violations.append(Violation(kind, f"[date() {label}] {what}", replay))
    if len(states) >= 1 and (st["bj"].size or np.any(np.isclose(states[-1]["post"][:, 0] + 1, ms, rtol=1e-9))):
        res.nontrivial.add(common.canon_key([replay["ts"], args]))


def new_stats():
    return dict(branches={}, labels={}, max_shape={}, regularise={}, projection_calls=0, skipped_updates=0,
                tiny_renormalisations=0, capped_runs=0, hyp_sched_ok=0, hyp_free_not_fixed=0, ctor_raised={},
                impl_raised={}, rat_runs=0, rat_exact=0, date_status={}, date_iterations_observed=0)


def run(ctx):
    import time
    res = Result()
    t0 = time.time()
    import tsdate  # noqa: F401
    dating.quiet()
    stats = new_stats()
    wall = dict(import_tsdate=round(time.time() - t0, 1))
    rng = ctx.rng(1)
    with E.LeanEP() as L:
        t0 = time.time()
        for i in range(ctx.n(30, 400)):
            one_case(L, rng, i, res, stats, raw_perturb=False)
        wall["B_tree_sequences"] = round(time.time() - t0, 1)
        t0 = time.time()
        for i in range(ctx.n(20, 300)):
            one_case(L, rng, 100000 + i, res, stats, raw_perturb=True)
        wall["B_perturbed"] = round(time.time() - t0, 1)
    t0 = time.time()
    rng2 = ctx.rng(2)
    holder = {}
    for i in range(ctx.n(3, 30)):
        rat_case(holder, rng2, 200000 + i, res, stats)
    if holder.get("L") is not None:
        holder["L"].close()
    wall["B_rat"] = round(time.time() - t0, 1)
    t0 = time.time()
    rng3 = ctx.rng(3)
    for _ in range(ctx.n(12, 250)):
        date_case(rng3, res, stats)
    wall["C_date"] = round(time.time() - t0, 1)
    stats["wall_s"] = wall
    res.rule = ("B: tree sequences (plain / historical samples / internal samples / polytomies / sparse / unphased "
                "diploids / twin blocks) -> real ExpectationPropagation objects, and the same static data perturbed "
                "(counts x1e3..1e9, extra fixed nodes, span scales) fed to the real numba kernels; max_shape in "
                "{1.5,2,10,1000} x regularise x 1..5 iterations; Lean model at Float compared bit for bit after "
                "every iteration. C: _assemble_factors == node_posterior (rtol 1e-9 of the summed magnitudes), "
                "scale == 1, fixed nodes unwritten, after every iteration incl. iterations observed inside real "
                "tsdate.date() calls. Non-trivial = at least two kinds of update branch executed, or a posterior "
                "was capped at max_shape, or an update was skipped (NaN), or the TINY renormalisation fired; "
                "distinct by canonical hash of the static input and options.")
    n_b = max(1, stats["hyp_sched_ok"])
    res.extra = dict(input_distribution=stats,
                     hypothesis_hit_rates=dict(SchedOK=f"{stats['hyp_sched_ok']}/{n_b}",
                                               free_excludes_fixed=f"{stats['hyp_free_not_fixed']}/{n_b}",
                                               max_shape_gt_1="all (drawn from {1.5,2,10,1000})"))
    return res


def search(ctx):
    res = Result()
    stats = new_stats()
    rng = ctx.rng(4)
    for _ in range(ctx.n(6, 40)):
        date_case(rng, res, stats)
    return res


def replay(ctx, payload):
    import tsdate
    d = payload.get("input") or payload.get("correspondence_input")
    dating.quiet()
    if d.get("kind") == "date":
        ts = gen.ts_from_jsonable(d["ts"])
        seen = []

        def observer(ep, itkw):
            seen.append((E.static_of(ep), E.dump_with_asm(ep)))

        with E.rebind_observed(observer):
            try:
                tsdate.date(ts, **d["args"])
                print("date(): returned")
            except Exception as e:  # noqa: BLE001
                print(f"date(): raised {type(e).__name__}: {e}")
        bad = E.oracle_bookkeeping(seen[0][0], [s for _, s in seen], "replay") if seen else []
        print("iterations observed:", len(seen), "violations:", bad)
        return not bad
    st = E.static_from_replay(d)
    opts = d["opts"]
    impl_states, impl_status = E.run_impl(E.RawEP(st), **opts)
    with E.LeanEP() as L:
        out = E.run_model(L, 0, st, mode=d.get("mode", "float"), **opts)
    print("implementation:", impl_status, "iterations", len(impl_states))
    if impl_states:
        print("  node_posterior       :", impl_states[-1]["post"].tolist())
        print("  _assemble_factors    :", impl_states[-1]["asm"].tolist())
    print("model         :", out["status"], "iterations", len(out["states"]))
    if out["states"] and d.get("mode", "float") == "float":
        print("  post                 :", out["states"][-1]["post"].reshape(-1, 2).tolist())
    diffs = E.compare(impl_states, impl_status, out) if d.get("mode", "float") == "float" else []
    print("model vs implementation:", diffs or "identical (bit-for-bit)")
    tag = "replay"
    bad = E.oracle_bookkeeping(st, impl_states, tag)
    print("bookkeeping violations on the implementation:", bad)
    return not bad and not diffs
