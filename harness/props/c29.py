"""
C29 — splitting disjoint nodes preserves every local tree.

A  theorems in Props/C29 about the Lean models of `_split_disjoint_nodes` / `_relabel_mutations_node`.
B  exact correspondence of both models (Driver/Split.lean, coordinates as exact rationals) with the numba
   kernels: (i) on the arguments/results captured *inside* real `split_disjoint_nodes` calls on generated
   tree sequences, (ii) on synthetic edge lists (ties, adjacency, nesting, arbitrary roles).
C  the statement on the returned tree sequence: per-position tree isomorphism, contiguity, leftmost piece
   keeps the id, node-table columns / flags / metadata of the pieces, mutations, genotypes, idempotence.
"""

import numpy as np

from .. import common, dating, split_corr as sc
from ..common import Result, Violation

META = dict(
    level='Lean theorems over the executable models of `_split_disjoint_nodes` and `_relabel_mutations_node`, for every edge table, sample mask and admissible argsort: endpoints map back through nodes_order; per-position tree isomorphism (same parent-child pairs after mapping back, injective on the nodes of each local tree); every non-sample output node is present on an interval; distinct pieces are separated by a strict gap; leftmost piece keeps the id; samples never split; idempotence under any row permutation; the mutation sweep equals "last inserted piece with left <= position", maps each mutation back to its node and onto the piece present at its position. Models tied to the numba kernels exactly (captured in-situ calls + synthetic inputs). the set of samples below every mutation is unchanged; node columns/flags are copied through nodes_order; every piece of a split node carries unsplit_node_id when the schema can store it for all split nodes, rows untouched when it cannot (codec = parameter). Partial: the full-strength "unsplit_node_id where possible" is FALSE of the code (known finding unsplit-id-skipped-after-earlier-failure, negation proved on a witness); tables.sort, the metadata codec and allele decoding are tskit by contract, checked by the oracle on every generated input.',
    note='Lean kernel + {propext, Classical.choice, Quot.sound}; sampled exact correspondence; tskit/numpy by contract; argsort is a parameter (any sorted permutation)',
    technique='loop invariant over the sorted event list + refinement of the two-pointer sweep to a filter/fold spec + exact model/kernel correspondence',
    ref='§3 C29',
)
LEAN_PROPS = ["TsdateVerif.Props.C29"]
LEAN_BUILD = ["TsdateVerif.Model.Proto"]
ASSUMPTIONS = [
    "np.argsort returns a permutation sorted by key (tie order arbitrary: the theorems quantify over it)",
    "tskit: edge insertion/removal indexes are sorted by left/right; mutations are sorted by site position; tables.sort/compute_mutation_parents/variants by contract",
    "node table copy `_reorder_nodes` (numpy fancy indexing, pack/unpack of metadata) by contract, checked by the oracle",
]


ts_b64, ts_from_b64 = sc.ts_b64, sc.ts_from_b64


def tables_equal(a, b):
    return a.tables.equals(b.tables, ignore_provenance=True)


def one_ts(ts, info, res, stats, cases, impls):
    from tsdate.util import split_disjoint_nodes
    replay = dict(kind="split-ts", ts=ts_b64(ts), fired=info["fired"])
    res.evaluations += 1
    for f in info["fired"]:
        stats["fired"][f] = stats["fired"].get(f, 0) + 1
    md = sc.metadata_info(ts)
    md_class = next((f[3:] for f in info["fired"] if f.startswith("md:")), None)
    try:
        with sc.capture_warning() as warned, sc.capture_kernels() as calls:
            out = split_disjoint_nodes(ts)
    except Exception as e:  # noqa: BLE001
        res.violations.append(Violation(f"split-raised-{type(e).__name__}",
                                        f"split_disjoint_nodes raised {type(e).__name__}: {str(e)[:160]} on a valid tree sequence "
                                        f"({info['fired']})", replay))
        return
    c, o = sc.case_from_capture(calls)
    c["flags"] = np.array(ts.nodes_flags, dtype=np.int64)          # node-table part of the model (`outFlags`)
    o["flags"] = np.array(out.nodes_flags, dtype=np.int64)
    c["md"] = md                                                    # metadata part of the model (`outMetadata`)
    o["md"] = sc.out_md_tokens(out)
    if len(o["split"]):
        k = "possible" if all(md["enc"][int(u)] is not None for u in o["split"]) else (
            "impossible" if all(md["enc"][int(u)] is None for u in o["split"]) else "mixed")
        key = f"{md_class}:{k}"
        stats["md_classes_with_split"][key] = stats["md_classes_with_split"].get(key, 0) + 1
    cases.append(c)
    impls.append(o)
    for kind, what in sc.ts_oracle(ts, out, o["order"], o["split"], md=md, warned=bool(warned), md_class=md_class):
        res.violations.append(Violation(kind, what, replay))
    # idempotence on the real function
    try:
        with sc.capture_kernels() as calls2:
            out2 = split_disjoint_nodes(out)
        if len(calls2["split"][-1][1][3]) or not tables_equal(out, out2):
            res.violations.append(Violation("not-idempotent", "a second split_disjoint_nodes changed the tables "
                                            f"({len(calls2['split'][-1][1][3])} further split(s))", replay))
    except Exception as e:  # noqa: BLE001
        res.violations.append(Violation(f"split-raised-{type(e).__name__}", f"second application raised {type(e).__name__}: {str(e)[:160]}", replay))
    if len(o["split"]):
        res.nontrivial.add(common.canon_key(sc.case_replay(c)))
        stats["ts_split"] += 1
        stats["max_pieces"] = max(stats["max_pieces"], int(np.bincount(np.asarray(o["split"])).max()) + 1)
    moved = int(np.sum(np.asarray(o["mnode"]) != c["mnode"]))
    stats["mutations_moved"] += moved
    L = ts.sequence_length
    if ts.num_edges and ts.num_sites:
        stats["sites_beyond_last_edge"] += int(np.sum(ts.sites_position >= ts.edges_right.max()))
        stats["sites_before_first_edge"] += int(np.sum(ts.sites_position < ts.edges_left.min()))
    res.sample(dict(kind="ts", nodes=ts.num_nodes, edges=ts.num_edges, trees=ts.num_trees, mutations=ts.num_mutations,
                    new_nodes=int(len(o["split"])), mutations_moved=moved, fired=info["fired"], L=L))


def run_batch(ctx, n_ts, n_synth, stream, res, stats):
    import tsdate  # noqa: F401
    dating.quiet()
    import logging
    logging.getLogger("tsdate.util").setLevel(logging.ERROR)
    rng = ctx.rng(stream)
    cases, impls = [], []
    for _ in range(n_ts):
        ts, info = sc.gen_split_ts(rng)
        one_ts(ts, info, res, stats, cases, impls)
    n_ts_cases = len(cases)
    for _ in range(n_synth):
        c = sc.synth_case(rng)
        try:
            o = sc.run_kernels(c)
        except Exception as e:  # noqa: BLE001
            res.violations.append(Violation(f"kernel-raised-{type(e).__name__}", f"kernel raised {type(e).__name__}: {str(e)[:120]}", sc.case_replay(c)))
            continue
        res.evaluations += 1
        cases.append(c)
        impls.append(o)
        if len(o["split"]):
            res.nontrivial.add(common.canon_key(sc.case_replay(c)))
            stats["synth_split"] += 1
    # hypotheses of the theorems, and the theorems' conclusions on the kernels' arrays
    for c, o in zip(cases, impls):
        for k, v in sc.hypotheses(c).items():
            stats["hyp"][k] = stats["hyp"].get(k, 0) + int(v)
        stats["hyp_n"] += 1
        for kind, what in sc.kernel_oracle(c, o):
            res.violations.append(Violation(kind, f"[{c['kind']} arrays] {what}", sc.case_replay(c)))
    if cases:
        res.corr_failures += sc.compare(cases, impls)
        c = cases[-1]
        res.sample(dict(kind=c["kind"], nodes=c["N"], edges=int(c["ep"].size), mutations=int(c["mnode"].size),
                        new_nodes=int(len(impls[-1]["split"]))))
    stats["cases_ts"] += n_ts_cases
    stats["cases_synth"] += len(cases) - n_ts_cases


def new_stats():
    return dict(fired={}, md_classes_with_split={}, ts_split=0, synth_split=0, max_pieces=1, mutations_moved=0, sites_beyond_last_edge=0,
                sites_before_first_edge=0, hyp={}, hyp_n=0, cases_ts=0, cases_synth=0)


RULE = ("B: arguments/results of the two numba kernels captured inside split_disjoint_nodes on generated tree sequences "
        "(msprime + gaps 1..6, flanks cut, keep_unary subsets, mutations on isolated samples / absent nodes / beyond the last "
        "edge / exactly at breakpoints, non-integer coordinates, struct/json/no metadata, hand-made corner cases) and on "
        "synthetic edge lists, vs the Lean models, every array compared exactly. C: the statement on the returned tree "
        "sequence and on the arrays. Non-trivial = at least one node was split; distinct by hash of the kernel input.")


def run(ctx):
    res = Result()
    stats = new_stats()
    run_batch(ctx, ctx.n(40, 800), ctx.n(160, 4000), 1, res, stats)
    res.rule = RULE
    res.extra = dict(input_distribution=stats,
                     hypothesis_hit_rates={k: f"{v}/{stats['hyp_n']}" for k, v in stats["hyp"].items()})
    return res


def search(ctx):
    res = Result()
    stats = new_stats()
    run_batch(ctx, ctx.n(20, 60), ctx.n(40, 100), 7, res, stats)
    res.corr_failures = []
    return res


def replay(ctx, payload):
    import tsdate  # noqa: F401
    from tsdate.util import split_disjoint_nodes
    dating.quiet()
    d = payload["input"] if "input" in payload else payload.get("correspondence_input")
    if d["kind"] == "split-kernels":
        c = sc.case_from_replay(d)
        o = sc.run_kernels(c)
        print("implementation:", {k: np.asarray(o[k]).tolist() for k in sc.FIELDS})
        fails = sc.compare([c], [o])
        m = sc.run_model([c]).get(0)
        print("model         :", None if m is None else {k: m[k].tolist() for k in sc.FIELDS})
        bad = sc.kernel_oracle(c, o)
        print("statement on the arrays:", bad or "holds")
        return not fails and not bad
    ts = ts_from_b64(d["ts"])
    md = sc.metadata_info(ts)
    try:
        with sc.capture_warning() as warned, sc.capture_kernels() as calls:
            out = split_disjoint_nodes(ts)
    except Exception as e:  # noqa: BLE001
        print(f"split_disjoint_nodes raised {type(e).__name__}: {e}")
        return False
    c, o = sc.case_from_capture(calls)
    c["flags"], o["flags"] = np.array(ts.nodes_flags, dtype=np.int64), np.array(out.nodes_flags, dtype=np.int64)
    c["md"], o["md"] = md, sc.out_md_tokens(out)
    md_class = next((f[3:] for f in d.get("fired", []) if f.startswith("md:")), None)
    bad = sc.ts_oracle(ts, out, o["order"], o["split"], md=md, warned=bool(warned), md_class=md_class)
    print("node metadata (schema class %s): split nodes %s" % (md_class, sorted(set(int(u) for u in o["split"]))[:10]))
    for v in range(ts.num_nodes, out.num_nodes)[:6]:
        print("  new node", v, "from", int(o["order"][v]), "metadata", out.node(v).metadata)
    fails = sc.compare([c], [o])
    print("violations:", bad or "none", "| model:", "differs" if fails else "identical")
    return not bad and not fails
