"""
C16 — discretised prior grids hold the right probability masses.

A  theorems in Props/C16 (row zero at time 0, non-negative for monotone cdf values, entry i = c * (F(t_i) - F(t_{i-1})),
   largest entry exactly 1; timepoints = 0 :: sorted quantiles, strictly increasing iff quantiles positive and
   distinct, base quantiles always present; non-fixed nodes = non-samples; explicit grid returned exactly for inverse
   time transforms / constant size).
B  Lean model at Float vs `create_timepoints`, the rows of `prior_grid(...)`, `nonfixed_nodes` and the stored grid for
   explicit timepoints (constant size), all compared bit for bit; scipy cdf/ppf values are oracle data.
C  oracle: the statement on `prior.timepoints`, every row, `nonfixed_nodes`, for lognorm/gamma x integer/explicit
   timepoints x population-size histories, with the distribution functions written independently (ndtr / gammainc).
"""

import numpy as np

from .. import common, gen, priorgrid_corr as pc, spans_corr as sc
from ..common import Result, Violation, f2h, h2f

META = dict(
    level='Lean theorems over the prior-grid model (any ordered field; cdf/ppf uninterpreted): stored row = 0 :: c*(F(t_i)-F(t_{i-1})) with one positive constant c (row_mass), first entry 0, entries non-negative when the cdf values are non-decreasing along the grid, largest entry exactly 1 (over columns >= 1 and over all columns); create_timepoints = 0 :: sorted permutation of the selected quantiles, non-decreasing for non-negative quantiles, strictly increasing iff the selected quantiles are positive and pairwise distinct, always containing every quantile of the k=2 row, each step adding exactly the quantiles of percentiles farther than max_sep from all projected points, and (when cdf inverts ppf on the percentiles) every percentile of every row ending within max_sep of a grid point; nonfixed_nodes = the node ids whose NODE_IS_SAMPLE flag is clear (derived from the flags column, wherever the samples sit in the node table), each once, sorted by time, and row_lookup gives a grid row to exactly those; explicit timepoints are stored exactly (sorted) whenever the two time transforms are mutually inverse on them (proved for a constant size; C17 for general histories). Model tied bit-for-bit at Float to the real functions with scipy cdf/ppf values as oracle data. Outside: the scipy distribution functions (contract: monotone cdf, positive quantiles - evaluated per input), float rounding of the time-scale round trip (known finding explicit-timegrid-returned-up-to-rounding when within rtol 1e-12, violation beyond), the mixture parameters feeding the rows (C14/C15).',
    note='Lean kernel + {propext, Classical.choice, Quot.sound}; scipy.stats cdf/ppf as oracle tables; sampled bit-exact correspondence',
    technique='algebraic characterisation of the row transform and of sort/prefix structure of the timepoint construction + bit-exact model/implementation correspondence with oracle tables',
    ref='§3 C16',
)
LEAN_PROPS = ["TsdateVerif.Props.C16"]
LEAN_BUILD = ["TsdateVerif.Model.Proto", "TsdateVerif.Model.PriorGrid"]
ASSUMPTIONS = [
    "scipy.stats lognorm/gamma cdf and ppf are modelled by contract (uninterpreted functions; values passed as oracle data)",
    "user grids are quantified over those starting at 0; on floats the natural->coalescent->natural round trip moves points by 1..~100 ulp: bit-exact is fine, within rtol 1e-12 is the known finding explicit-timegrid-returned-up-to-rounding, beyond is a violation (bit-exact against the Float model for a constant size)",
    "theorems are in exact arithmetic over an ordered field",
]


def gen_pop(rng):
    from tsdate import demography
    mode = str(rng.choice(["float", "int", "history1", "history"]))
    if mode == "float":
        return float(10 ** rng.uniform(1, 5)), mode
    if mode == "int":
        return int(rng.integers(10, 100000)), mode
    if mode == "history1":
        return demography.PopulationSizeHistory(float(10 ** rng.uniform(1, 5))), mode
    k = int(rng.integers(2, 5))
    # sizes within 10^2..10^4.5: the float round trip of explicit grids then stays below 1e-13 relative (measured
    # 7.5e-14 over 20000 histories); with 10^1..10^5 the same code reaches 2.1e-12 (conditioning, C17 territory)
    sizes = [float(10 ** rng.uniform(2, 4.5)) for _ in range(k)]
    breaks = sorted(float(x) for x in 10 ** rng.uniform(0, 5, size=k - 1))
    if len(set(breaks)) < len(breaks):
        breaks = [float(i + 1) * 100 for i in range(k - 1)]
    return demography.PopulationSizeHistory(sizes, breaks), mode


def gen_timepoints(rng):
    if rng.random() < 0.5:
        return int(rng.choice([2, 3, 5, 10, 20, 25])), "int"
    m = int(rng.integers(2, 16))
    pts = np.cumsum(10 ** rng.uniform(-1, 3, size=m))
    user = np.concatenate([[0.0], pts])
    if rng.random() < 0.3:
        user = np.round(user)
        user = np.unique(user)
        if len(user) < 2:
            user = np.array([0.0, 1.0, 5.0])
    return rng.permutation(user), "explicit"


def renumber(ts, rng, mode):
    """Full node renumbering including the samples (tables.subset): samples last, or a random interleaving."""
    n = ts.num_nodes
    is_sample = np.zeros(n, dtype=bool)
    is_sample[ts.samples()] = True
    if mode == "samples_last":
        order = np.concatenate([rng.permutation(np.where(~is_sample)[0]), np.where(is_sample)[0]])
    else:
        order = rng.permutation(n)
    tables = ts.dump_tables()
    tables.subset(order.astype(np.int32), record_provenance=False)
    tables.sort()
    tables.build_index()
    tables.compute_mutation_parents()
    return tables.tree_sequence()


def nonfixed_block(cid, ts):
    return (cid, ["op nonfixed", "flags " + " ".join(str(int(f)) for f in ts.nodes_flags), "times " + pc.hexs(ts.nodes_time)])


def grid_case(ctx, rng, idx, stats):
    """One prior_grid call on the implementation + the blocks the model needs."""
    from tsdate import prior
    ts, info = gen.sim_ts(rng, n=int(rng.integers(2, 9)), ploidy=1, trees=int(rng.choice([1, 2, 4, 8])), muts_per_edge=0.3)
    fired = []
    if rng.random() < 0.3:
        ts2, _ = sc.isolate_samples(ts, rng, k=int(rng.integers(1, 3)))
        if ts2.num_edges > 0:
            ts = ts2
            fired.append("missing")
    if rng.random() < 0.2:
        ts2, ok = gen.polytomise(ts, rng)
        if ok and ts2.num_edges > 0:
            ts = ts2
            fired.append("polytomy")
    r = rng.random()
    if r < 0.2:
        ts, _ = gen.permute_nodes(ts, rng)       # samples stay first; internal node ids no longer in time order
        fired.append("permuted")
    elif r < 0.4:
        ts = renumber(ts, rng, "samples_last")   # tsinfer-style numbering
        fired.append("samples_last")
    elif r < 0.6:
        ts = renumber(ts, rng, "interleaved")    # samples and internal nodes interleave
        fired.append("interleaved")
    distr = str(rng.choice(["lognorm", "gamma"]))
    pop, pop_mode = gen_pop(rng)
    tps, tp_mode = gen_timepoints(rng)
    c = dict(ts=ts, idx=idx, distr=distr, pop=pop, pop_mode=pop_mode, tps=tps, tp_mode=tp_mode, fired=fired)
    try:
        with pc.Capture() as cap, np.errstate(all="ignore"):
            pg = prior.prior_grid(ts, pop, tps if tp_mode == "int" else np.array(tps), prior_distribution=distr)
    except Exception as e:
        key = f"{type(e).__name__}: {str(e)[:50]}"
        stats["rejected"][key] = stats["rejected"].get(key, 0) + 1
        return None
    c["pg"] = pg
    c["cap"] = cap.calls[0]
    tp_coal = c["cap"]["tp_coal"]
    params = c["cap"]["params"]
    blocks = []
    samples = [int(s) for s in ts.samples()]
    c["rows"] = {}
    for u in range(ts.num_nodes):
        if u in samples:
            continue
        F = pc.row_F(distr, tp_coal, params[u][0], params[u][1])
        c["rows"][u] = F
        if np.all(np.isfinite(F)):
            blocks.append(pc.model_blocks_row(f"r{idx}_{u}", F))
    blocks.append(nonfixed_block(f"n{idx}", ts))
    if tp_mode == "int":
        c["tpc"] = pc.tp_case(distr, ts.num_samples, tps + 1)
        blocks.append((f"t{idx}", c["tpc"]["lines"]))
    elif pop_mode in ("float", "int", "history1"):
        twoN = 2.0 * (float(pop) if pop_mode in ("float", "int") else float(pop.population_size[0]) / 2.0)
        c["twoN"] = twoN
        blocks.append((f"g{idx}", ["op usergrid", f"twoN {f2h(twoN)}", "user " + pc.hexs(np.asarray(tps, dtype=float))]))
    c["blocks"] = blocks
    return c


def jsonable_case(c):
    pop = c["pop"]
    popj = pop if c["pop_mode"] in ("float", "int") else dict(population_size=[float(x) / 2 for x in pop.population_size],
                                                               time_breaks=[float(x) for x in pop.time_breaks[1:]])
    return dict(kind="grid", ts=gen.ts_to_jsonable(c["ts"]), distr=c["distr"], pop=popj, pop_mode=c["pop_mode"],
                timepoints=c["tps"] if c["tp_mode"] == "int" else [f2h(x) for x in c["tps"]], tp_mode=c["tp_mode"])


def evaluate_grid(c, out, res, stats):
    ts, idx, pg, distr = c["ts"], c["idx"], c["pg"], c["distr"]
    replay = jsonable_case(c)
    res.evaluations += 1
    stats["grid"][f"{distr}/{c['tp_mode']}/{c['pop_mode']}"] = stats["grid"].get(f"{distr}/{c['tp_mode']}/{c['pop_mode']}", 0) + 1
    for f in c["fired"]:
        stats["fired"][f] = stats["fired"].get(f, 0) + 1
    samples = set(int(s) for s in ts.samples())
    tp_coal = c["cap"]["tp_coal"]
    params = c["cap"]["params"]
    tp = np.asarray(pg.timepoints, dtype=float)
    # ---- C: timegrid
    if tp[0] != 0.0:
        res.violations.append(Violation("timegrid-not-starting-at-0", f"prior.timepoints[0] = {tp[0]!r}", replay))
    if not np.all(np.diff(tp) > 0):
        res.violations.append(Violation("timegrid-not-strictly-increasing", "prior.timepoints is not strictly increasing", replay))
    if c["tp_mode"] == "explicit":
        user = np.sort(np.asarray(c["tps"], dtype=float))
        if len(user) != len(tp):
            res.violations.append(Violation("timegrid-not-users-grid", "stored timepoints have a different length than the user's grid", replay))
        else:
            moved = [common.ulps(a, b) for a, b in zip(user, tp)]
            stats["explicit_moved_ulps"] = max(stats["explicit_moved_ulps"], max(moved))
            stats["explicit_grids"] += 1
            # bit-exact -> fine; differs within rtol 1e-12 -> the float round trip (known finding); more -> violation
            relerr = np.where(user != 0, np.abs(tp - user) / np.where(user != 0, np.abs(user), 1.0), np.abs(tp - user))
            stats["explicit_max_rel"] = max(stats["explicit_max_rel"], float(relerr.max()))
            if max(moved) == 0:
                stats["explicit_bit_exact"] += 1
            elif float(relerr.max()) <= 1e-12:
                res.violations.append(Violation("explicit-timegrid-returned-up-to-rounding",
                                                f"stored timepoints differ from the user's grid by up to {max(moved)} ulp "
                                                f"(max rel {float(relerr.max()):.2g}; population sizes: {c['pop_mode']})", replay))
            else:
                res.violations.append(Violation("timegrid-not-users-grid",
                                                f"stored timepoints differ from the user's grid by up to {max(moved)} ulp, "
                                                f"relative {float(relerr.max()):.3g} > 1e-12", replay))
        if "twoN" in c:
            t = out.get(f"g{idx}")
            if t is None or not pc.same_bits([h2f(x) for x in t], tp):
                res.corr_failures.append(Violation("usergrid-model-differs", "stored explicit grid differs from the Lean model (constant size)", replay, stage="B"))
    else:
        t = out.get(f"t{idx}")
        if t is None or not pc.same_bits([h2f(x) for x in t], tp_coal):
            res.corr_failures.append(Violation("timepoints-model-differs",
                                               "create_timepoints (as used by prior_grid) differs from the Lean model" +
                                               (" (model asked for a value outside the oracle tables)" if t is None else ""), replay, stage="B"))
        c["tpc"]["tp"] = np.asarray(tp_coal, dtype=float)
        for kind, what in pc.tp_oracle(c["tpc"]):
            res.violations.append(Violation(kind, what, replay))
        uns = tp_coal[1:]
        stats["hyp_tp_distinct_positive"] += int(len(set(uns)) == len(uns) and np.all(uns > 0))
        stats["tp_cases"] += 1
    # ---- nonfixed nodes
    nonfixed = [int(x) for x in pg.nonfixed_nodes]
    if set(nonfixed) != set(range(ts.num_nodes)) - samples or len(nonfixed) != len(set(nonfixed)):
        res.violations.append(Violation("nonfixed-nodes-wrong", "nonfixed_nodes is not the set of non-sample nodes", replay))
    import tskit
    flags = ts.nodes_flags
    norow = set()
    for u in range(ts.num_nodes):          # per node id, against the flags column
        has_row = bool(pg.row_lookup[u] >= 0) and np.ndim(pg[u]) == 1
        if flags[u] & tskit.NODE_IS_SAMPLE:
            if has_row:
                res.violations.append(Violation("sample-node-has-grid-row", f"sample node {u} has a grid row", dict(replay, node=u)))
                break
        elif not has_row:
            norow.add(u)
    if norow:
        res.violations.append(Violation("non-sample-node-has-no-grid-row",
                                        f"non-sample node(s) {sorted(norow)[:5]} have no grid row", dict(replay, node=min(norow))))
    layout = "samples_first" if list(ts.samples()) == list(range(ts.num_samples)) else "samples_not_first"
    stats["layout"][layout] = stats["layout"].get(layout, 0) + 1
    t = out.get(f"n{idx}")
    times = ts.nodes_time
    distinct = len(set(times[nonfixed])) == len(nonfixed)
    if t is None or sorted(int(x) for x in t) != sorted(nonfixed) or (distinct and [int(x) for x in t] != nonfixed) \
            or np.any(np.diff(times[nonfixed]) < 0):
        res.corr_failures.append(Violation("nonfixed-model-differs", "nonfixed_nodes differs from the Lean model", replay, stage="B"))
    # ---- rows
    nontriv = False
    for u, F in c["rows"].items():
        if u in norow:
            continue
        row = np.asarray(pg[u], dtype=float)
        stats["rows"] += 1
        mono, pos, rowmax = pc.row_hypotheses(F) if np.all(np.isfinite(F)) else (False, False, False)
        stats["hyp_row_all"] += int(mono and pos and rowmax)
        t = out.get(f"r{idx}_{u}")
        if np.all(np.isfinite(F)):
            if t is None or not pc.same_bits([h2f(x) for x in t], row):
                res.corr_failures.append(Violation("row-model-differs", f"prior row of node {u} differs from the Lean model",
                                                   dict(replay, node=u), stage="B"))
        for kind, what in pc.row_oracle(distr, row, tp_coal, params[u][0], params[u][1]):
            res.violations.append(Violation(kind, f"node {u} ({distr}): {what}", dict(replay, node=u)))
            break
        if np.sum(row > 0) >= 2:
            nontriv = True
    if nontriv:
        res.nontrivial.add(common.canon_key(replay))
    res.sample(dict(distr=distr, timepoints=c["tp_mode"], pop=c["pop_mode"], nodes=ts.num_nodes, grid=len(tp), fired=c["fired"]))


def new_stats():
    return dict(rejected={}, grid={}, fired={}, rows=0, hyp_row_all=0, tp_cases=0, hyp_tp_distinct_positive=0,
                layout={}, explicit_moved_ulps=0, explicit_max_rel=0.0, explicit_grids=0, explicit_bit_exact=0, tp_direct=0)


def run_all(ctx, n_tp, n_grid, streams, res, stats):
    rng = ctx.rng(streams[0])
    # direct create_timepoints cases
    tcases = []
    for i in range(n_tp):
        distr = str(rng.choice(["lognorm", "gamma"]))
        n = int(rng.integers(2, 30 if ctx.tier == "quick" else 60))
        npts = int(rng.choice([3, 4, 6, 11, 21, 26, 41]))
        extra = [int(rng.integers(2, n + 1))] if rng.random() < 0.3 else []
        c = pc.tp_case(distr, n, npts, extra)
        c["idx"] = i
        tcases.append(c)
    rng = ctx.rng(streams[1])
    gcases = []
    for i in range(n_grid):
        c = grid_case(ctx, rng, i, stats)
        if c is not None:
            gcases.append(c)
    out = pc.run_driver([(f"T{c['idx']}", c["lines"]) for c in tcases] + [b for c in gcases for b in c["blocks"]])
    for c in tcases:
        replay = dict(kind="tp", distr=c["distr"], total_tips=c["total_tips"], n_points=c["n_points"], extra_tips=c["extra_tips"])
        res.evaluations += 1
        stats["tp_direct"] += 1
        t = out.get(f"T{c['idx']}")
        if t is None or not pc.same_bits([h2f(x) for x in t], c["tp"]):
            res.corr_failures.append(Violation("timepoints-model-differs",
                                               f"create_timepoints({c['distr']}, n={c['total_tips']}, n_points={c['n_points']}) differs from the Lean model"
                                               + (" (model asked for a value outside the oracle tables)" if t is None else ""), replay, stage="B"))
        for kind, what in pc.tp_oracle(c):
            res.violations.append(Violation(kind, what, replay))
        uns = c["tp"][1:]
        stats["hyp_tp_distinct_positive"] += int(len(set(uns)) == len(uns) and np.all(uns > 0))
        stats["tp_cases"] += 1
        if len(c["tp"]) > c["n_points"]:        # at least one thinning step added points
            res.nontrivial.add(common.canon_key(replay))
    for c in gcases:
        evaluate_grid(c, out, res, stats)
    return tcases, gcases


def finish(res, stats):
    stats["hypotheses"] = dict(row_monotone_positive=f"{stats['hyp_row_all']}/{stats['rows']}",
                               quantiles_distinct_positive=f"{stats['hyp_tp_distinct_positive']}/{stats['tp_cases']}")
    res.extra = dict(input_distribution=stats)


def run(ctx):
    res = Result()
    import tsdate  # noqa: F401
    stats = new_stats()
    run_all(ctx, ctx.n(30, 200), ctx.n(40, 400), (1, 2), res, stats)
    res.rule = ("B: create_timepoints over (lognorm|gamma) x total tips 2..30 x n_points 3..41 and prior_grid over msprime inputs "
                "(2..8 samples, optional missing samples / polytomies, node ids renumbered: internal only / samples last / fully interleaved) x (lognorm|gamma) x (integer | explicit, unsorted) timepoints x "
                "(float | int | 1-epoch | multi-epoch) population sizes: Lean model at Float vs implementation bit for bit "
                "(timepoints, every row, nonfixed_nodes, stored explicit grid); C: statement on timepoints / rows / nonfixed nodes with "
                "independently written distribution functions. Non-trivial = a grid with at least one row having two positive "
                "masses, or a timepoint construction in which a thinning step added points; distinct by input hash.")
    finish(res, stats)
    return res


def search(ctx):
    res = Result()
    stats = new_stats()
    run_all(ctx, ctx.n(10, 30), ctx.n(10, 40), (3, 4), res, stats)
    finish(res, stats)
    return res


def replay(ctx, payload):
    from tsdate import demography, prior
    d = payload["input"] if "input" in payload else payload.get("correspondence_input")
    res = Result()
    stats = new_stats()
    if d["kind"] == "tp":
        c = pc.tp_case(d["distr"], d["total_tips"], d["n_points"], d.get("extra_tips", []))
        out = pc.run_driver([("T", c["lines"])])
        t = out.get("T")
        print("implementation:", [float(x) for x in c["tp"]])
        print("model         :", None if t is None else [h2f(x) for x in t])
        bad = pc.tp_oracle(c)
        print("violations:", bad)
        return not bad and t is not None and pc.same_bits([h2f(x) for x in t], c["tp"])
    ts = gen.ts_from_jsonable(d["ts"])
    pop = d["pop"] if d["pop_mode"] in ("float", "int") else demography.PopulationSizeHistory(**d["pop"])
    tps = d["timepoints"] if d["tp_mode"] == "int" else np.array([h2f(x) for x in d["timepoints"]])

    class R:        # replays the recorded choices through grid_case's code path
        pass
    with pc.Capture() as cap, np.errstate(all="ignore"):
        pg = prior.prior_grid(ts, pop, tps, prior_distribution=d["distr"])
    c = dict(ts=ts, idx=0, distr=d["distr"], pop=pop, pop_mode=d["pop_mode"], tps=tps, tp_mode=d["tp_mode"], fired=[],
             pg=pg, cap=cap.calls[0], rows={})
    samples = set(int(s) for s in ts.samples())
    blocks = []
    for u in range(ts.num_nodes):
        if u not in samples:
            F = pc.row_F(d["distr"], c["cap"]["tp_coal"], c["cap"]["params"][u][0], c["cap"]["params"][u][1])
            c["rows"][u] = F
            if np.all(np.isfinite(F)):
                blocks.append(pc.model_blocks_row(f"r0_{u}", F))
    blocks.append(nonfixed_block("n0", ts))
    if d["tp_mode"] == "int":
        c["tpc"] = pc.tp_case(d["distr"], ts.num_samples, tps + 1)
        blocks.append(("t0", c["tpc"]["lines"]))
    elif d["pop_mode"] in ("float", "int", "history1"):
        c["twoN"] = 2.0 * (float(pop) if d["pop_mode"] in ("float", "int") else float(pop.population_size[0]) / 2.0)
        blocks.append(("g0", ["op usergrid", f"twoN {f2h(c['twoN'])}", "user " + pc.hexs(np.asarray(tps, dtype=float))]))
    out = pc.run_driver(blocks)
    evaluate_grid(c, out, res, stats)
    print("timepoints:", [float(x) for x in pg.timepoints])
    u = d.get("node")
    if u is not None:
        print(f"implementation row {u}:", [float(x) for x in np.atleast_1d(pg[u])])
        t = out.get(f"r0_{u}")
        print(f"model row {u}         :", None if t is None else [h2f(x) for x in t])
    print("violations:", [(v.kind, v.what[:100]) for v in res.violations])
    print("correspondence failures:", [(v.kind, v.what[:100]) for v in res.corr_failures])
    new = [v for v in res.violations if v.kind != "explicit-timegrid-returned-up-to-rounding"]     # listed known finding
    return not new and not res.corr_failures
