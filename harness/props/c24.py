"""
C24 — per-edge mutation, span and singleton-block tallies are exact.

A  theorems in Props/C24: plain tally exact (mutations_edge = the edge above the mutation's node at its
   position, NULL above roots; counts = direct tally; span = right-left), independent of the sample mask and
   of the order of equal-position mutations, equal to mutation_span_array under tskit's `mut.edge` contract;
   size-biased variant: mutations_edge exact, nodes_samples = number of mask nodes below each node in the
   current forest, every mutation weighted by the number of mask nodes below its node at its position (any
   mask = custom sample sets), every unit of span by the number of mask nodes below the edge's child in
   that local tree (integral over any partition containing the edge end points), no impossible state.
   Singleton blocks: not a theorem (other cluster).
B  Lean model at Float vs the real `_count_mutations` kernel, bit-for-bit, plain and size-biased, default and
   custom sample masks, tskit's indexes and tie-shuffled valid indexes; the executable specifications
   `specEdge` / `samplesBelow` vs tskit's `mut.edge` / a count over tskit's tree.
C  oracle: naive per-tree tallies with tskit's tree iterator against count_mutations (both variants, custom
   sample sets), mutation_span_array, the arrays ExpectationPropagation actually uses, and block_singletons.
"""

import numpy as np

from .. import common, dating, gen, sweep_corr as sc
from ..common import Result, Violation

META = dict(
    level='Lean theorems, for all valid edge tables/indexes/mutation tables: `_count_mutations` (plain) terminates and puts every mutation on the edge above its node at its position (NULL above roots), per-edge counts equal the direct tally, spans equal right-left, result independent of the sample mask and of the visiting order of equal-position mutations, equal to `mutation_span_array` under the tskit mut.edge contract; size-biased variant (any sample mask, node times with parents older than children): `mutations_edge` exact, `nodes_samples[u]` = number of mask nodes at or below u in the current forest, each mutation weighted by the number of mask nodes below its node in the local tree at its position, edges_span = integral over the edge of the number of mask nodes below its child (over any break-point list containing the edge end points), walk to the root never fails. Full for the kernel `_count_mutations` and `mutation_span_array`; partial for the property: the singleton-block clause (`_block_singletons`, modelled by the C22/C23 cluster) is covered here only by the naive per-tree oracle; wrappers (`count_mutations`, ExpectationPropagation wiring) by oracle.',
    note='Lean kernel + {propext, Classical.choice, Quot.sound}; sampled bit-exact correspondence; tskit indexes checked per input; exact-arithmetic spans',
    technique='loop-invariant rule for the shared insertion/removal sweep + bit-exact model/implementation correspondence + per-tree oracle',
    ref='§3 C24',
)
LEAN_PROPS = ["TsdateVerif.Props.C24"]
LEAN_BUILD = ["TsdateVerif.Model.Proto", "TsdateVerif.Model.CountMut", "TsdateVerif.Model.Unary"]
ASSUMPTIONS = [
    "tskit's insertion/removal indexes are checked per input (validB), not assumed; tskit's mut.edge and tree iterator are taken by contract in the oracle",
    "theorems are over an ordered field (span = right-left exactly); the Float model is compared bit-for-bit with numba",
    "singleton blocks are covered by the per-tree oracle only (their model belongs to C22/C23)",
    "size-biased theorems assume node times with every edge's parent strictly older than its child (timesOkB, checked per input)",
]


def default_mask(ts):
    m = np.zeros(ts.num_nodes, dtype=bool)
    m[list(ts.samples())] = True
    return m


def oracle_count(ts, tb, mask, sb, stats, me, who, replay, res):
    """The statement of C24 on the implementation's outputs (`stats` E x 2, `me` mutations_edge)."""
    em, sp, nme = sc.naive_tallies(ts, mask, sb)
    exact = sc.integer_coords(tb)
    variant = "sizebiased" if sb else "plain"
    if not np.array_equal(np.asarray(me, dtype=np.int64), nme):
        bad = np.where(np.asarray(me, dtype=np.int64) != nme)[0]
        root = bool(np.any(nme[bad] < 0))
        kind = f"{who}-{variant}-mutation-on-wrong-edge" + ("-above-root" if root else "")
        res.violations.append(Violation(kind, f"{who}({variant}): mutations_edge differs from the edge above the node at the "
                                        f"site for {bad.size} mutation(s), e.g. m={int(bad[0])}: got {int(me[bad[0]])}, "
                                        f"tree says {int(nme[bad[0]])}", replay))
    if not np.array_equal(stats[:, 0], em):
        bad = np.where(stats[:, 0] != em)[0]
        res.violations.append(Violation(f"{who}-{variant}-count-differs",
                                        f"{who}({variant}): edges_mutations differs from the direct tally on {bad.size} edge(s), "
                                        f"e.g. e={int(bad[0])}: got {stats[bad[0], 0]}, tally {em[bad[0]]}", replay))
    if not sc.close_spans(stats[:, 1], sp, tb["L"], exact):
        d = np.abs(stats[:, 1] - sp)
        e = int(np.argmax(d))
        res.violations.append(Violation(f"{who}-{variant}-span-differs",
                                        f"{who}({variant}): edges_span differs from the direct tally, worst e={e}: got "
                                        f"{stats[e, 1]!r}, tally {sp[e]!r} (integer coords={exact})", replay))


def kernel_cases(ctx, n_inputs, stream, res, stats):
    from tsdate.rescaling import count_mutations
    from tsdate.util import mutation_span_array
    rng = ctx.rng(stream)
    items, text = [], []
    for _ in range(n_inputs):
        ts, info = sc.gen_input(rng, unary_bias=0.2)
        if ts.num_edges == 0:
            continue
        if rng.random() < 0.3:
            # flag bits other than NODE_IS_SAMPLE must not change who counts as a sample by default
            ts, fmode = sc.add_flag_bits(ts, rng, mode="random")
            info["fired"] = list(info["fired"]) + ["flag_bits"]
        for f in info["fired"]:
            stats["fired"][f] = stats["fired"].get(f, 0) + 1
        tb0 = sc.tables_of(ts)
        variants = [(False, "default"), (True, "default")]
        variants.append((bool(rng.random() < 0.7), "custom"))
        for sb, mk in variants:
            if mk == "default":
                mask, mname = default_mask(ts), "default"
            else:
                mask, mname = sc.random_mask(rng, ts)
                mname = "custom-" + mname
            shuffled = bool(rng.random() < 0.3)
            tb = sc.shuffle_ties(rng, tb0) if shuffled else tb0
            want = bool(sb) and sc.span_table_cost(tb) <= 9000
            items.append((ts, tb, mask, mname, sb, shuffled, info))
            text.append(sc.encode_count(len(items) - 1, tb, mask, sb, wantspan=want))
    model = sc.run_model("".join(text))
    tskit_edge_cache = {}
    for i, (ts, tb, mask, mname, sb, shuffled, info) in enumerate(items):
        res.evaluations += 1
        replay = dict(kind="count", ts=gen.ts_to_jsonable(ts), mask=[int(b) for b in mask], mask_name=mname, sb=bool(sb),
                      ins=[int(x) for x in tb["ins"]], rem=[int(x) for x in tb["rem"]])
        st, me = sc.impl_count_raw(tb, mask, sb)
        m = model.get(i)
        variant = "sizebiased" if sb else "plain"
        stats["variants"][f"{variant}:{mname.split('-')[0]}"] = stats["variants"].get(f"{variant}:{mname.split('-')[0]}", 0) + 1
        # ---- B
        if m is None:
            res.corr_failures.append(Violation("count-model-bad-op", f"Lean model rejected a tskit input ({variant})", replay, "B"))
        else:
            for j, nm in enumerate(("valid", "no_overlap", "nodes_below", "muts_ok", "times_ok", "partition_ok")):
                stats["hyp"][nm] += int(m["flags"][j] == "1")
            stats["hyp"]["n"] += 1
            same_me = np.array_equal(np.asarray(me, dtype=np.int64), m["mut_edge"])
            same_em = sc.bits_equal(st[:, 0], m["edge_muts"])
            same_sp = sc.bits_equal(st[:, 1], m["edge_span"])
            if not (same_me and same_em and same_sp):
                what = [n for n, ok in (("mutations_edge", same_me), ("edges_mutations", same_em), ("edges_span", same_sp)) if not ok]
                res.corr_failures.append(Violation(
                    f"count-{variant}-model-differs",
                    f"_count_mutations({variant}, mask={mname}, shuffled={shuffled}) differs from the Lean model in {what} "
                    f"(trees={ts.num_trees}, edges={ts.num_edges}, muts={ts.num_mutations})", replay, "B"))
            key = id(ts)
            if key not in tskit_edge_cache:
                tskit_edge_cache[key] = np.array([mu.edge for mu in ts.mutations()], dtype=np.int64)
            if not np.array_equal(m["spec_edge"], tskit_edge_cache[key]):
                res.corr_failures.append(Violation("spec-edge-differs-from-tskit",
                                                   "the model's specEdge differs from tskit's mut.edge", replay, "B"))
            if m["span_weights"] is not None:
                stats["span_spec_checked"] += 1
                ss = sc.spec_spans(tb, m["span_weights"])
                if not sc.close_spans(st[:, 1], ss, tb["L"], sc.integer_coords(tb)):
                    res.corr_failures.append(Violation(
                        "spec-span-differs-from-kernel",
                        "size-biased edges_span differs from the specified integral of samplesBelow over tskit's "
                        "breakpoints (model's weight table)", replay, "B"))
            if sb and not np.array_equal(m["spec_weight"], sc.naive_mut_weights(ts, mask)):
                res.corr_failures.append(Violation("spec-weight-differs-from-tree-count",
                                                   "the model's samplesBelow differs from counting mask nodes below the "
                                                   "mutation's node with tskit's tree", replay, "B"))
        # ---- C on the raw kernel output
        oracle_count(ts, tb, mask, sb, st, me, "kernel", replay, res)
        # ---- C on the public function (tskit's own indexes) incl. the custom sample-set path
        if not shuffled:
            try:
                if mname == "default" and rng.random() < 0.5:
                    st2, me2 = count_mutations(ts, size_biased=bool(sb))
                else:
                    st2, me2 = count_mutations(ts, node_is_sample=mask, size_biased=bool(sb))
                oracle_count(ts, tb, mask, sb, np.asarray(st2), np.asarray(me2), "count_mutations", replay, res)
            except Exception as e:  # noqa: BLE001
                res.violations.append(Violation("count_mutations-raises",
                                                f"count_mutations(mask={mname}, size_biased={sb}) raised {type(e).__name__}: {str(e)[:120]}",
                                                replay))
        if not sb and mname == "default" and not shuffled:
            sa, sme = mutation_span_array(ts)
            oracle_count(ts, tb, mask, False, np.asarray(sa), np.asarray(sme), "mutation_span_array", replay, res)
        # non-trivial: more than one tree and a mutation above a root or on a node with several edges
        multi = ts.num_trees > 1 and ts.num_mutations > 0
        if multi:
            nme = np.asarray(me)
            child_edges = np.bincount(tb["child"], minlength=tb["N"])
            if np.any(nme < 0) or np.any(child_edges[tb["mnode"]] > 1):
                res.nontrivial.add(common.canon_key([replay["ts"]["edges"], replay["ts"]["mutations"]["node"], replay["mask"],
                                                     replay["sb"], replay["ins"], replay["rem"]]))
                stats["nontrivial_root_or_multiedge"] += 1
        if i % 50 == 0:
            res.sample(dict(kind="count", variant=variant, mask=mname, trees=ts.num_trees, edges=ts.num_edges,
                            muts=ts.num_mutations, null_edges=int(np.sum(np.asarray(me) < 0)), fired=info["fired"]))


# ----------------------------------------------------------------------------- EP wiring and blocks (oracle only)

def naive_blocks(ts, unphased):
    """Per-tree tally: for every unphased individual the maximal runs of trees over which both of its leaf
    branches exist and stay the same; (edge pair, span, singletons) per run, and the run of every mutation."""
    blocks = []
    mut_block = {}
    mnode = ts.mutations_node
    mpos = ts.sites_position[ts.mutations_site]
    for ind in ts.individuals():
        if not unphased[ind.id] or len(ind.nodes) != 2:
            continue
        a, b = int(ind.nodes[0]), int(ind.nodes[1])
        cur = None
        for tree in ts.trees():
            l, r = tree.interval
            pair = (int(tree.edge(a)), int(tree.edge(b)))
            if cur is not None and cur["pair"] == pair:
                cur["right"] = r
            else:
                if cur is not None:
                    blocks.append(cur)
                cur = dict(pair=pair, left=l, right=r, ind=ind.id)
        if cur is not None:
            blocks.append(cur)
    out = []
    for blk in blocks:
        if blk["pair"][0] < 0 or blk["pair"][1] < 0:
            continue
        nodes = set(int(x) for x in ts.individual(blk["ind"]).nodes)
        ms = [m for m in range(ts.num_mutations) if int(mnode[m]) in nodes and blk["left"] <= mpos[m] < blk["right"]]
        out.append(dict(pair=frozenset(blk["pair"]), span=blk["right"] - blk["left"], singletons=len(ms), muts=ms))
        for m in ms:
            mut_block[m] = len(out) - 1
    return out, mut_block


def one_haplotype_missing(ts, unphased):
    """Input class of the known finding: some unphased diploid has exactly one of its two leaf nodes in
    a tree (the other is isolated there)."""
    for ind in ts.individuals():
        if not unphased[ind.id] or len(ind.nodes) != 2:
            continue
        a, b = int(ind.nodes[0]), int(ind.nodes[1])
        for tree in ts.trees():
            if (tree.edge(a) < 0) != (tree.edge(b) < 0):
                return True
    return False


def block_witnesses():
    """The two inputs of Props/C24 `block_count_counterexample` / `block_assertion_counterexample`."""
    import tskit

    def mk(edges, muts, ntimes, inds):
        t = tskit.TableCollection(sequence_length=10)
        for _ in range(2):
            t.individuals.add_row()
        for i, tm in enumerate(ntimes):
            t.nodes.add_row(flags=tskit.NODE_IS_SAMPLE if tm == 0 else 0, time=tm,
                            individual=-1 if inds[i] is None else inds[i])
        for (l, r, p, c) in edges:
            t.edges.add_row(l, r, p, c)
        for (pos, node) in muts:
            t.mutations.add_row(t.sites.add_row(pos, "A"), node, "T")
        t.sort()
        t.build_index()
        t.compute_mutation_parents()
        return t.tree_sequence()

    w1 = mk([(0, 10, 4, 0), (4, 10, 4, 1), (0, 10, 4, 2), (0, 10, 4, 3)], [(2, 0), (6, 0), (3, 2), (7, 3)],
            [0, 0, 0, 0, 1], [0, 0, 1, 1, None])
    w2 = mk([(0, 6, 4, 0), (6, 10, 5, 0), (0, 4, 4, 1), (0, 10, 4, 2), (0, 10, 4, 3), (6, 10, 5, 4)],
            [(2, 0), (7, 0), (3, 2), (8, 3)], [0, 0, 0, 0, 1, 2], [0, 0, 1, 1, None, None])
    return [w1, w2]


def check_blocks(ts, unphased, res, stats, source):
    from tsdate.phasing import block_singletons
    replay = dict(kind="blocks", ts=gen.ts_to_jsonable(ts), unphased=[int(b) for b in unphased],
                  nodes_individual=[int(x) for x in ts.nodes_individual])
    res.evaluations += 1
    missing = one_haplotype_missing(ts, unphased)
    stats["blocks_class"][f"{source}:{'one-haplotype-missing' if missing else 'complete'}"] = \
        stats["blocks_class"].get(f"{source}:{'one-haplotype-missing' if missing else 'complete'}", 0) + 1
    try:
        bstats, bedges, mblock = block_singletons(ts, np.ascontiguousarray(unphased))
    except AssertionError:
        kind = "blocks-assertion-one-haplotype-missing" if missing else "blocks-assertion"
        res.violations.append(Violation(kind, "block_singletons raised a bare AssertionError (num_blocks != flushed blocks)"
                                        + (": an unphased individual has one leaf node isolated over part of the sequence"
                                           if missing else ""), replay))
        return
    except Exception as e:  # noqa: BLE001
        stats["blocks_raised"][type(e).__name__] = stats["blocks_raised"].get(type(e).__name__, 0) + 1
        return
    nb, nmb = naive_blocks(ts, unphased)
    stats["blocks"] += len(nb)
    got = sorted((tuple(sorted(int(x) for x in bedges[k])), float(bstats[k, 1]), float(bstats[k, 0])) for k in range(bedges.shape[0]))
    want = sorted((tuple(sorted(b["pair"])), float(b["span"]), float(b["singletons"])) for b in nb)
    if got != want:
        spans_ok = sorted(g[:2] for g in got) == sorted(w[:2] for w in want)
        if spans_ok and missing:
            kind = "blocks-count-includes-one-branch-stretch"
        else:
            kind = "blocks-singleton-count-differs" if spans_ok else "blocks-span-or-edges-differ"
        res.violations.append(Violation(kind, f"block_singletons: {len(got)} block(s) vs naive per-tree tally {len(want)}; "
                                        f"first difference {next((g, w) for g, w in zip(got + [None], want + [None]) if g != w)}", replay))
    elif not missing:
        # every mutation of an unphased individual points at the block that contains it
        for m in range(ts.num_mutations):
            k = int(mblock[m])
            if m in nmb:
                b = nb[nmb[m]]
                if k < 0 or frozenset(int(x) for x in bedges[k]) != b["pair"] or float(bstats[k, 1]) != float(b["span"]):
                    res.violations.append(Violation("blocks-mutation-in-wrong-block",
                                                    f"mutation {m} is assigned block {k}, not the block containing it", replay))
                    break
    if len(nb) >= 2 and ts.num_trees > 1:
        res.nontrivial.add(common.canon_key([replay["ts"]["edges"], replay["unphased"], "blocks"]))
    if stats["blocks_cases"] % 10 == 0:
        res.sample(dict(kind="blocks", individuals=int(ts.num_individuals), unphased=int(np.sum(unphased)),
                        trees=ts.num_trees, blocks=len(nb), one_haplotype_missing=missing))
    stats["blocks_cases"] += 1


def block_case(rng, res, stats):
    n = int(rng.integers(2, 5))
    ts, info = gen.gen_ts(rng, ploidy=2, n=n, polytomy=0.2, rootmuts=0.2, muts_per_edge=float(rng.choice([1, 3, 8])))
    source = "random"
    if rng.random() < 0.3:
        ts2 = sc.truncate_leaf_edge(ts, rng)
        if ts2 is not None:
            ts, source = ts2, "leaf-edge-truncated"
    if ts.num_individuals == 0 or ts.num_edges == 0:
        return
    unphased = rng.random(ts.num_individuals) < 0.7
    if rng.random() < 0.3:
        unphased[:] = True
    # only contemporary diploids may be unphased (the wrapper raises otherwise)
    for ind in ts.individuals():
        if len(ind.nodes) != 2 or np.any(ts.nodes_time[ind.nodes] != 0):
            unphased[ind.id] = False
    check_blocks(ts, unphased, res, stats, source)


def ep_case(rng, res, stats):
    """The arrays variational dating really uses: ExpectationPropagation.edge_likelihoods etc."""
    from tsdate.variational import ExpectationPropagation
    ts, info = sc.gen_input(rng, unary_bias=0.15)
    if ts.num_edges == 0 or ts.num_mutations == 0:
        return
    res.evaluations += 1
    replay = dict(kind="ep", ts=gen.ts_to_jsonable(ts))
    try:
        ep = ExpectationPropagation(ts, mutation_rate=1.0, allow_unary=True)
    except Exception as e:  # noqa: BLE001
        stats["ep_raised"][type(e).__name__] = stats["ep_raised"].get(type(e).__name__, 0) + 1
        return
    tb = sc.tables_of(ts)
    mask = default_mask(ts)
    oracle_count(ts, tb, mask, False, np.asarray(ep.edge_likelihoods), np.asarray(ep.mutation_edges), "EP.edge_likelihoods", replay, res)
    oracle_count(ts, tb, mask, True, np.asarray(ep.sizebiased_likelihoods), np.asarray(ep.mutation_edges), "EP.sizebiased_likelihoods", replay, res)
    stats["ep_ok"] += 1


def _stats():
    return dict(fired={}, variants={}, hyp=dict(valid=0, no_overlap=0, nodes_below=0, muts_ok=0, times_ok=0, partition_ok=0, n=0),
                span_spec_checked=0,
                nontrivial_root_or_multiedge=0, blocks=0, blocks_cases=0, blocks_raised={}, blocks_class={}, ep_ok=0,
                ep_raised={})


def run(ctx):
    res = Result()
    import tsdate  # noqa: F401
    dating.quiet()
    stats = _stats()
    kernel_cases(ctx, ctx.n(40, 700), 1, res, stats)
    for w in block_witnesses():
        check_blocks(w, np.ones(w.num_individuals, dtype=bool), res, stats, "witness")
    rng = ctx.rng(2)
    for _ in range(ctx.n(20, 400)):
        block_case(rng, res, stats)
    rng = ctx.rng(3)
    for _ in range(ctx.n(16, 300)):
        ep_case(rng, res, stats)
    res.rule = ("B/C: tskit tree sequences (recombination, polytomies, gaps, deleted flanks, historical and internal samples, "
                "mutations above roots / on isolated samples / beyond the last edge, unary nodes, dead-end branches, node "
                "renumbering, non-integer coordinates) x (plain | size-biased) x (default | custom sample mask) x (tskit "
                "indexes | tie-shuffled valid indexes): kernel vs Lean model bit-for-bit and vs naive per-tree tallies; "
                "count_mutations, mutation_span_array, ExpectationPropagation arrays and block_singletons vs naive per-tree "
                "tallies. Non-trivial = more than one tree and a mutation above a root or on a node with several edges "
                "(kernel cases), or >= 2 blocks over > 1 tree (block cases); distinct by hash of the input.")
    h = stats["hyp"]
    res.extra = dict(input_distribution=stats,
                     hypothesis_hit_rates={k: f"{h[k]}/{h['n']}" for k in ("valid", "no_overlap", "nodes_below", "muts_ok", "times_ok", "partition_ok")})
    return res


def search(ctx):
    res = Result()
    stats = _stats()
    kernel_cases(ctx, ctx.n(20, 60), 4, res, stats)
    rng = ctx.rng(5)
    for _ in range(ctx.n(5, 20)):
        ep_case(rng, res, stats)
    return res


def replay(ctx, payload):
    import tsdate  # noqa: F401
    dating.quiet()
    d = payload["input"] if "input" in payload else payload.get("correspondence_input")
    ts = gen.ts_from_jsonable(d["ts"])
    res = Result()
    stats = _stats()
    if d["kind"] == "blocks":
        from tsdate.phasing import block_singletons
        t = ts.dump_tables()
        t.nodes.individual = np.array(d["nodes_individual"], dtype=np.int32)
        ts = t.tree_sequence()
        un = np.array(d["unphased"], dtype=bool)
        print("one haplotype missing somewhere:", one_haplotype_missing(ts, un))
        try:
            bstats, bedges, mblock = block_singletons(ts, un)
        except AssertionError:
            print("implementation: block_singletons raised AssertionError")
            return False
        nb, _ = naive_blocks(ts, un)
        print("implementation blocks:", [(list(map(int, bedges[k])), float(bstats[k, 1]), float(bstats[k, 0])) for k in range(len(bedges))])
        print("naive per-tree tally :", [(sorted(b["pair"]), b["span"], b["singletons"]) for b in nb])
        return sorted((tuple(sorted(map(int, bedges[k]))), float(bstats[k, 1]), float(bstats[k, 0])) for k in range(len(bedges))) == \
            sorted((tuple(sorted(b["pair"])), float(b["span"]), float(b["singletons"])) for b in nb)
    if d["kind"] == "ep":
        from tsdate.variational import ExpectationPropagation
        ep = ExpectationPropagation(ts, mutation_rate=1.0, allow_unary=True)
        tb = sc.tables_of(ts)
        oracle_count(ts, tb, default_mask(ts), False, np.asarray(ep.edge_likelihoods), np.asarray(ep.mutation_edges), "EP.edge_likelihoods", d, res)
        oracle_count(ts, tb, default_mask(ts), True, np.asarray(ep.sizebiased_likelihoods), np.asarray(ep.mutation_edges), "EP.sizebiased_likelihoods", d, res)
        print("violations:", [v.what for v in res.violations])
        return not res.violations
    tb = sc.tables_of(ts)
    tb["ins"] = np.array(d["ins"], dtype=np.int32)
    tb["rem"] = np.array(d["rem"], dtype=np.int32)
    mask = np.array(d["mask"], dtype=bool)
    sb = bool(d["sb"])
    st, me = sc.impl_count_raw(tb, mask, sb)
    m = sc.run_model(sc.encode_count(0, tb, mask, sb, wantspan=bool(sb))).get(0)
    em, sp, nme = sc.naive_tallies(ts, mask, sb)
    print("implementation: mutations_edge", list(map(int, me)))
    print("                edges_mutations", st[:, 0].tolist(), "\n                edges_span", st[:, 1].tolist())
    if m is None:
        print("model         : bad-op")
    else:
        print("model         : mutations_edge", m["mut_edge"].tolist())
        print("                edges_mutations", m["edge_muts"].tolist(), "\n                edges_span", m["edge_span"].tolist())
    print("naive tally   : mutations_edge", nme.tolist())
    print("                edges_mutations", em.tolist(), "\n                edges_span", sp.tolist())
    oracle_count(ts, tb, mask, sb, st, me, "kernel", d, res)
    same = m is not None and np.array_equal(np.asarray(me, dtype=np.int64), m["mut_edge"]) and \
        sc.bits_equal(st[:, 0], m["edge_muts"]) and sc.bits_equal(st[:, 1], m["edge_span"])
    print("violations:", [v.what for v in res.violations], " model identical:", same)
    return same and not res.violations
