"""
C25 — time rescaling is an order-preserving recalibration.

A  theorems in Props/C25: `diffarray_spec`, `pwl_interpolant`, `pwl_monotone`, `pwl_at_break`, `pwl_fix_zero`,
   `pwl_continuous`, `pwl_constant_after_last`, `pwl_fixed_untouched`, `order_preserved`, `compose_monotone`,
   `timescale_strict_iff`, `posterior_keeps_mapped_mean`.
B  the Lean model at Float against numba, bit-for-bit: `mutational_area`, `mutational_timescale` (incl. which inputs
   assert), `piecewise_scale_point_estimate`, `piecewise_scale_posterior` (quantile inverse and inter-quantile fit called
   on the real functions), and every such call recorded inside real `ExpectationPropagation.rescale()` runs, plus the
   breakpoint recovery of `rescale()`.
C  the statement on the real code: direct overlap sums (exact rationals), monotone / continuous / fixes 0 / fixed
   untouched on the point map, order of posterior means preserved and mapped mean kept by `rescale()`, shape <= max_shape.
   `AssertionError: Use fewer rescaling intervals` (finding F5, repaired by /repo fa21a50) must not occur any more:
   `timescale_breaks_strict` is the obligation, `timescale_strict_iff` + `merge_noop_when_informative` say when the new
   merging step changes anything; both are evaluated on the real outputs.
"""

from fractions import Fraction

import numpy as np

from .. import common, gen, rescale_corr as rc
from ..common import Result, Violation, f2h

META = dict(
    level='Lean theorems over the models of mutational_area / mutational_timescale / piecewise_scale_* (all edge lists with in-range endpoints, all time vectors incl. ties and non-positive edge lengths, all likelihood tables, all break vectors satisfying the code\'s own asserted precondition, exact arithmetic): difference array + cumsum = direct per-interval overlap sum of mutation rate and span; the index/slope formula is the piecewise-linear interpolant through the breakpoints, monotone, Lipschitz-continuous, maps break i to rescaled break i (fixes 0), constant after the last break; fixed entries untouched; order of free point estimates preserved; compositions monotone; the breaks returned by mutational_timescale (after the merging step of fix fa21a50) always satisfy the asserted precondition and start at (0,0); raw rescaled breaks strictly increase iff every interval has positive mutation count, and then nothing is merged; the posterior step keeps the mapped mean for whatever shape the inter-quantile fit returns. Models tied to numba bit-for-bit incl. on all calls recorded inside real rescale() runs. Outside the theorems: that dense ranks correspond to time intervals is tied by correspondence and the exact-rational oracle only; shape <= max_shape is a property of approximate_gamma_iqr (C19 cluster), checked by the oracle only; rounding.',
    note='Lean kernel + {propext, Classical.choice, Quot.sound}; sampled bit-exact correspondence at Float; numpy argsort/searchsorted/cumsum/unique, numba np.sum order, gammainc_inv and approximate_gamma_iqr by contract',
    technique='prefix-sum lemma for point updates; refinement of index+slope code to a recursive interpolant; induction on the break list; bit-exact model/implementation correspondence incl. recorded calls',
    ref='§3 C25',
)
LEAN_PROPS = ["TsdateVerif.Props.C25"]
LEAN_BUILD = ["TsdateVerif.Model.Proto", "TsdateVerif.Model.Rescale"]
ASSUMPTIONS = [
    "np.argsort-based dense ranking = number of distinct node times strictly below; np.searchsorted(side='right') on a strictly increasing array = number of entries <= x; np.cumsum / numba np.sum are sequential",
    "the hypothesis of timescale_breaks_strict (first raw original break below the last one) holds whenever two node times differ; evaluated per input",
    "gammainc_inv and approximate_gamma_iqr are parameters of the posterior model (the real functions are called on the model's intermediate values)",
]


def tree_replay(c, **extra):
    return dict(kind="tree", times=[f2h(x) for x in c["times"]], y=[f2h(x) for x in c["lik"][:, 0]],
                span=[f2h(x) for x in c["lik"][:, 1]], parent=[int(x) for x in c["parent"]],
                child=[int(x) for x in c["child"]], **extra)


def tree_from_replay(d):
    from ..common import h2f
    return dict(times=np.array([h2f(x) for x in d["times"]]),
                lik=np.ascontiguousarray(np.column_stack([[h2f(x) for x in d["y"]], [h2f(x) for x in d["span"]]]).reshape(-1, 2)),
                parent=np.array(d["parent"], dtype=np.int32), child=np.array(d["child"], dtype=np.int32), mode="replay")


def interval_counts(c, maxint, exact_counts):
    """per interval between consecutive unique changepoints of the real code: (exact total mutation rate - the float
    difference array leaves residues like 8e-25 where the true value is 0 -, sum offset, sum duration)"""
    from tsdate.rescaling import _fixed_changepoints
    counts, offset, duration, _ = rc.real_area(c)
    with np.errstate(all="ignore"):
        cps = np.unique(_fixed_changepoints(offset * duration, int(maxint)))
    return [(float(sum(exact_counts[i:j], Fraction(0))), float(np.sum(offset[i:j])), float(np.sum(duration[i:j])))
            for i, j in zip(cps[:-1], cps[1:])], int(cps.size)


# ----------------------------------------------------------------------------- stages

def stage_area(ctx, res, stats, batch):
    rng = ctx.rng(1)
    cases = []
    n_ts, n_syn = ctx.n(45, 450), ctx.n(60, 800)
    while len(cases) < n_ts:
        ts, info = gen.gen_ts(rng, historical=0.2, polytomy=0.2, gaps=0.15, n=int(rng.integers(2, 8)),
                              trees=int(rng.choice([1, 2, 3, 5, 8])))
        if ts.num_edges == 0:
            continue
        cases.append(rc.tree_input_from_ts(rng, ts, info["mu"]))
    for _ in range(n_syn):
        cases.append(rc.synthetic_tree_input(rng))
    ids = []
    for c in cases:
        c["maxint"] = int(rng.choice([1, 2, 3, 5, 10, 100, 1000]))
        small = c["times"].size <= 12
        ids.append((batch.add(rc.enc_area, c), batch.add(rc.enc_timescale, c, c["maxint"]),
                    batch.add(rc.enc_area, c, num="q") if small else None))
    yield
    for (ia, it, iq), c in zip(ids, cases):
        res.evaluations += 1
        stats["area_modes"][c["mode"]] = stats["area_modes"].get(c["mode"], 0) + 1
        replay = tree_replay(c, maxint=c["maxint"])
        in_range = bool(np.all(c["parent"] < c["times"].size) and np.all(c["child"] < c["times"].size))
        stats["hyp_in_range"] += int(in_range)
        A = rc.real_area(c)
        m = batch.get(ia)
        ok = isinstance(m, dict)
        if ok:
            for tag, v in zip(("c", "o", "d"), A[:3]):
                if not rc.bits_equal(m[tag], v):
                    ok = False
                    res.corr_failures.append(Violation(
                        f"area-model-differs-{tag}", f"mutational_area {dict(c='counts', o='offset', d='duration')[tag]} differs from "
                        f"the Lean model by up to {rc.max_ulps(m[tag], v)} ulp(s) ({c['mode']}, {c['times'].size} nodes)", replay, "B"))
                    break
            if ok and list(m["i"]) != [int(x) for x in A[3]]:
                res.corr_failures.append(Violation("area-model-differs-index", "nodes_index differs from the Lean model", replay, "B"))
        else:
            res.corr_failures.append(Violation("area-model-bad-op", f"model answered {m}", replay, "B"))
        # statement: direct overlap sums in exact rationals
        want_c, want_o, want_d, want_i = rc.direct_overlap(c)
        if iq is not None:
            mq = batch.get(iq)
            if not (isinstance(mq, dict) and mq["c"] == want_c and mq["o"] == want_o and list(mq["i"]) == want_i):
                res.corr_failures.append(Violation("area-exact-model-differs-from-statement",
                                                   "exact (Rat) model of mutational_area differs from the direct overlap sum", replay, "B"))
        scale_c = sum(abs(float(c["lik"][e, 0])) / abs(float(c["times"][c["parent"][e]] - c["times"][c["child"][e]]))
                      for e in range(len(c["parent"])) if c["times"][c["parent"][e]] > c["times"][c["child"][e]]) or 1.0
        scale_o = float(np.sum(np.abs(c["lik"][:, 1]))) or 1.0
        bad = None
        if len(A[0]) != len(want_c) or [int(x) for x in A[3]] != want_i:
            bad = "area-epochs-or-index-wrong"
        elif any(abs(float(Fraction(float(a)) - w)) > 1e-11 * scale_c for a, w in zip(A[0], want_c)):
            bad = "area-counts-not-direct-overlap"
        elif any(abs(float(Fraction(float(a)) - w)) > 1e-11 * scale_o for a, w in zip(A[1], want_o)):
            bad = "area-offset-not-direct-overlap"
        elif any(abs(float(Fraction(float(a)) - w)) > 1e-12 * max(1.0, float(np.max(np.abs(c["times"])))) for a, w in zip(A[2], want_d)):
            bad = "area-duration-wrong"
        if bad:
            res.violations.append(Violation(bad, f"mutational_area: {bad} ({c['mode']}, {c['times'].size} nodes, {len(want_c)} epochs)", replay))
        if len(want_c) >= 2:
            res.nontrivial.add(common.canon_key(replay))
        # timescale
        T = rc.real_timescale(c, c["maxint"])
        mt = batch.get(it)
        if isinstance(T[0], str):
            key = T[1][:40] if T[0] == "assert" else T[1][:40]
            stats["timescale_raised"][key] = stats["timescale_raised"].get(key, 0) + 1
            if T[0] == "assert" and mt != "assert":
                res.corr_failures.append(Violation("timescale-assert-differs", f"mutational_timescale asserts ({T[1]}) but the model returns a value", replay, "B"))
            if not (T[0] == "assert" and rc.ZERO_SPAN_MSG in T[1]):
                # the only assertion a valid input can trip here is the empty-interval one; anything else is the code's fault
                res.violations.append(Violation("timescale-unexpected-exception",
                                                f"mutational_timescale raised {T[1] or 'AssertionError without message'} on a valid input", replay))
            continue
        stats["timescale_ok"] += 1
        if not isinstance(mt, dict):
            total = float(np.sum(A[1] * A[2]))
            if total > 0 and np.all(np.isfinite(T[0])) and np.all(np.isfinite(T[1])):
                res.corr_failures.append(Violation("timescale-assert-differs", f"model answers {mt} where mutational_timescale returns", replay, "B"))
            else:
                stats["timescale_zero_mass"] += 1
            continue
        if not (rc.bits_equal(mt["origin"], T[0]) and rc.bits_equal(mt["adjust"], T[1])):
            res.corr_failures.append(Violation(
                "timescale-model-differs", f"mutational_timescale differs from the Lean model (origin {rc.max_ulps(mt['origin'], T[0])} ulp, "
                f"adjust {rc.max_ulps(mt['adjust'], T[1])} ulp; max_intervals {c['maxint']})", replay, "B"))
        # theorem timescale_breaks_strict on the implementation's output: the returned breaks always satisfy the precondition
        # asserted by piecewise_scale_* (hypothesis: two node times differ)
        hyp = bool(np.max(c["times"]) > np.min(c["times"]))
        stats["hyp_breaks_strict"] += int(hyp)
        if hyp and not (len(T[0]) == len(T[1]) >= 2 and np.all(np.diff(T[0]) > 0) and np.all(np.diff(T[1]) > 0)):
            res.violations.append(Violation("timescale-breaks-not-strictly-increasing",
                                            f"mutational_timescale returned origin {list(T[0])}, adjust {list(T[1])}", replay))
        # theorems timescale_strict_iff + merge_noop_when_informative: nothing is merged when every interval carries mutations
        iv, n_cps = interval_counts(c, c["maxint"], want_c)
        merged = len(T[0]) < n_cps
        stats["merged"] += int(merged)
        allpos = all(y > 0 for y, n, z in iv)
        # a positive increment far below one ulp of the running sum is absorbed by the float cumsum; an interval whose exact
        # count is 0 carries a float residue of the difference array (like 8e-25) of either sign: not the theorem's business
        absorbed = any(0 < z * y / n < 4 * np.spacing(abs(float(T[1][-1]))) for y, n, z in iv if n > 0)
        residue = any(abs(y) <= 1e-9 * scale_c for y, n, z in iv)
        if merged and allpos and not absorbed and not residue:
            res.violations.append(Violation("timescale-merged-an-informative-interval",
                                            f"{n_cps} changepoints, every interval carries mutations, but only {len(T[0])} breaks returned", replay))
        stats["hyp_all_intervals_informative"] += int(allpos)
        if T[0][0] != 0.0 or T[1][0] != 0.0:
            res.violations.append(Violation("timescale-breaks-not-from-zero", "origin/adjust do not start at 0", replay))
    if cases:
        res.sample(dict(kind="mutational_area", nodes=int(cases[0]["times"].size), edges=int(cases[0]["parent"].size), mode=cases[0]["mode"]))


def check_point_map(res, stats, xs, fixed, ob, rb, out, replay):
    """the statement on piecewise_scale_point_estimate's output"""
    free = ~np.asarray(fixed)
    if not np.array_equal(out[~free], np.asarray(xs)[~free]):
        res.violations.append(Violation("fixed-node-moved", "piecewise_scale_point_estimate changed a fixed entry", replay))
    scale = max(1.0, float(np.max(np.abs(rb))))
    for x, y in zip(np.asarray(xs)[free], out[free]):
        want = rc.pwl_reference(ob, rb, x)
        if abs(float(Fraction(float(y)) - want)) > 1e-12 * scale:
            res.violations.append(Violation("point-map-not-interpolant", f"pwl({x!r}) = {float(y)!r}, interpolant gives {float(want)!r}", replay))
            break
    order = np.argsort(np.asarray(xs)[free], kind="stable")
    ys = out[free][order]
    if np.any(np.diff(ys) < -4 * np.spacing(scale)):
        res.violations.append(Violation("point-map-not-monotone", "piecewise_scale_point_estimate reverses the order of two free entries", replay))
    stats["order_reversed_within_rounding"] += int(np.sum(np.diff(ys) < 0))


def stage_pwl(ctx, res, stats, batch):
    rng = ctx.rng(2)
    cases = []
    for _ in range(ctx.n(80, 1000)):
        ob, rb = rc.gen_breaks(rng)
        xs = rc.gen_points(rng, ob)
        fixed = rng.random(xs.size) < 0.2
        bad = None
        if rng.random() < 0.2:
            bad = str(rng.choice(["flat-rescaled", "decreasing-rescaled", "dup-original", "size"]))
            if bad == "flat-rescaled" and rb.size > 2:
                rb[2] = rb[1]
            elif bad == "decreasing-rescaled" and rb.size > 2:
                rb[1], rb[2] = rb[2], rb[1]
            elif bad == "dup-original" and ob.size > 2:
                ob[2] = ob[1]
            elif bad == "size":
                rb = rb[:-1]
            else:
                bad = None
        cases.append(dict(xs=xs, fixed=fixed, ob=ob, rb=rb, bad=bad))
    ids = [batch.add(rc.enc_pwl, c["xs"], c["fixed"], c["ob"], c["rb"]) for c in cases]
    yield
    for i, c in zip(ids, cases):
        res.evaluations += 1
        replay = dict(kind="pwl", xs=[f2h(x) for x in c["xs"]], fixed=[int(b) for b in c["fixed"]],
                      ob=[f2h(x) for x in c["ob"]], rb=[f2h(x) for x in c["rb"]])
        m = batch.get(i)
        if c["ob"].size != c["rb"].size:
            stats["pwl_pre_false"] += 1
            if m != "assert":
                res.corr_failures.append(Violation("pwl-model-accepts-size-mismatch", "model accepts break vectors of different sizes", replay, "B"))
            continue
        out = rc.real_pwl(c["xs"], c["fixed"], c["ob"], c["rb"])
        if isinstance(out, tuple):
            stats["pwl_pre_false"] += 1
            if m != "assert":
                res.corr_failures.append(Violation("pwl-assert-differs", f"piecewise_scale_point_estimate asserts ({out[1]}), model does not", replay, "B"))
            continue
        stats["pwl_pre_true"] += 1
        if not isinstance(m, dict):
            res.corr_failures.append(Violation("pwl-assert-differs", f"model answers {m}, code returns", replay, "B"))
            continue
        if not rc.bits_equal(m["ys"], out):
            res.corr_failures.append(Violation("pwl-model-differs", f"piecewise_scale_point_estimate differs from the Lean model by up to "
                                                                    f"{rc.max_ulps(m['ys'], out)} ulp(s)", replay, "B"))
        check_point_map(res, stats, c["xs"], c["fixed"], c["ob"], c["rb"], out, replay)
        if c["ob"][0] == 0 and c["rb"][0] == 0:
            z = rc.real_pwl(np.array([0.0]), np.array([False]), c["ob"], c["rb"])
            if z[0] != 0.0:
                res.violations.append(Violation("zero-not-fixed", "the rescaling map does not send 0 to 0", replay))
        res.nontrivial.add(common.canon_key(replay))
    if cases:
        res.sample(dict(kind="piecewise_scale_point_estimate", breaks=int(cases[0]["ob"].size), points=int(cases[0]["xs"].size)))


def posterior_case(rng):
    ob, rb = rc.gen_breaks(rng)
    n = int(rng.integers(2, 9))
    mean = rng.uniform(0.02, 1.3, size=n) * ob[-1]
    shape = np.exp(rng.uniform(np.log(1.2), np.log(400), size=n))
    post = np.column_stack([shape - 1, shape / mean])
    fixed = rng.random(n) < 0.2
    qw = float(rng.choice([0.5, 0.5, 0.2, 0.8]))
    ms = float(rng.choice([1000.0, 1000.0, 30.0, 3.0]))
    return dict(post=post, fixed=fixed, ob=ob, rb=rb, qw=qw, max_shape=ms)


def add_posterior(batch, c):
    al, be = c["post"][:, 0], c["post"][:, 1]
    free = ~c["fixed"]
    c["qlo"] = np.array([rc.gammainc_inv(a + 1, c["qw"] / 2) if f else 0.0 for a, f in zip(al, free)])
    c["qhi"] = np.array([rc.gammainc_inv(a + 1, 1 - c["qw"] / 2) if f else 0.0 for a, f in zip(al, free)])
    return batch.add(rc.enc_post, np.where(free, al, 0.0), np.where(free, be, 1.0), c["qlo"], c["qhi"], c["ob"], c["rb"])


def compare_posterior(res, stats, c, m, out, replay, where):
    """model points + real inter-quantile fit must reproduce the real function bit-for-bit; then the statement"""
    if isinstance(out, tuple):
        if m != "assert":
            res.corr_failures.append(Violation("posterior-assert-differs", f"piecewise_scale_posterior asserts ({out[1]}), model does not", replay, "B"))
        return
    if not isinstance(m, dict):
        res.corr_failures.append(Violation("posterior-assert-differs", f"model answers {m}, code returns ({where})", replay, "B"))
        return
    qw = c["qw"]
    for j in range(len(c["fixed"])):
        if c["fixed"][j] or np.isnan(c["post"][j, 0]):
            continue
        a, _ = rc.gamma_iqr(qw / 2, 1 - qw / 2, m["lo"][j], m["hi"][j], c["max_shape"])
        b = (a + 1) / m["mid"][j]
        if f2h(a) != f2h(out[j, 0]) or f2h(b) != f2h(out[j, 1]):
            res.corr_failures.append(Violation(
                "posterior-model-differs", f"piecewise_scale_posterior row {j} = {list(out[j])}, model + real inter-quantile fit gives "
                f"[{a!r}, {b!r}] ({where})", replay, "B"))
            break
        # statement: mapped mean kept, shape capped
        old_mean = (c["post"][j, 0] + 1) / c["post"][j, 1]
        want = float(rc.pwl_reference(c["ob"], c["rb"], old_mean))
        new_mean = (out[j, 0] + 1) / out[j, 1]
        if abs(new_mean - want) > 1e-9 * max(abs(want), 1e-300):
            res.violations.append(Violation("posterior-mean-not-mapped", f"rescaled posterior mean {new_mean!r}, mapped old mean {want!r} ({where})", replay))
            break
        if out[j, 0] + 1 > c["max_shape"] * (1 + 1e-9):
            res.violations.append(Violation("posterior-shape-above-max", f"rescaled shape {out[j, 0] + 1!r} > max_shape {c['max_shape']} ({where})", replay))
            break
        stats["posterior_rows"] += 1


def stage_posterior(ctx, res, stats, batch):
    rng = ctx.rng(3)
    cases = [posterior_case(rng) for _ in range(ctx.n(40, 500))]
    ids = [add_posterior(batch, c) for c in cases]
    yield
    for i, c in zip(ids, cases):
        res.evaluations += 1
        replay = dict(kind="posterior", post=[[f2h(x) for x in row] for row in c["post"]], fixed=[int(b) for b in c["fixed"]],
                      ob=[f2h(x) for x in c["ob"]], rb=[f2h(x) for x in c["rb"]], qw=c["qw"], max_shape=c["max_shape"])
        out = rc.real_posterior(c["post"], c["fixed"], c["ob"], c["rb"], c["qw"], c["max_shape"])
        compare_posterior(res, stats, c, batch.get(i), out, replay, "generated")
        res.nontrivial.add(common.canon_key(replay))


def stage_fits(ctx, res, stats, batch):
    """real ExpectationPropagation.rescale() runs with every inner call recorded"""
    from .. import gen as g
    rng = ctx.rng(4)
    runs = []
    n_target = ctx.n(14, 150)
    tries = 0
    while len(runs) < n_target and tries < 4 * n_target:
        tries += 1
        ts, info = g.gen_ts(rng, n=int(rng.integers(3, 8)), trees=int(rng.choice([1, 2, 4, 8])),
                            muts_per_edge=float(rng.choice([0.3, 1, 3, 8])), polytomy=0.15)
        if ts.num_mutations == 0:
            continue
        try:
            fit = rc.make_fit(ts, info["mu"], ep_iterations=int(rng.choice([1, 2, 5])))
        except Exception as e:  # noqa: BLE001
            stats["fit_raised"][type(e).__name__] = stats["fit_raised"].get(type(e).__name__, 0) + 1
            continue
        kw = dict(rescale_intervals=int(rng.choice([1, 2, 5, 20, 1000])), rescale_iterations=int(rng.choice([1, 3, 10])),
                  rescale_segsites=bool(rng.random() < 0.3), max_shape=float(rng.choice([1000.0, 50.0])))
        before = fit.node_posterior.copy()
        constraints = fit.node_constraints.copy()
        with rc.record_rescale() as calls:
            try:
                fit.rescale(**kw)
                exc = None
            except AssertionError as e:
                exc = str(e)
        runs.append(dict(ts=ts, info=info, kw=kw, before=before, after=fit.node_posterior.copy(), constraints=constraints,
                         calls=calls, exc=exc))
    ids = []
    for r in runs:
        rid = []
        for rec in r["calls"]["timescale"]:
            c = dict(times=rec["times"], lik=rec["lik"], parent=rec["parent"], child=rec["child"])
            rid.append(("ts", rec, batch.add(rc.enc_timescale, c, rec["maxint"])))
        for rec in r["calls"]["point"]:
            rid.append(("pt", rec, batch.add(rc.enc_pwl, rec["xs"], rec["fixed"], rec["ob"], rec["rb"])))
        for rec in r["calls"]["posterior"]:
            c = dict(post=np.where(np.isnan(rec["post"]), 1.0, rec["post"]), fixed=rec["fixed"] | np.isnan(rec["post"][:, 0]),
                     ob=rec["ob"], rb=rec["rb"], qw=rec["qw"], max_shape=rec["max_shape"])
            rec["case"] = c
            rid.append(("po", rec, add_posterior(batch, c)))
        # breakpoint recovery: inputs are the last timescale output, the last point output, the first timescale input
        tsc, ptc = r["calls"]["timescale"], r["calls"]["point"]
        n_it = r["kw"]["rescale_iterations"]
        if r["exc"] is None and len(tsc) == n_it and len(ptc) == n_it + 1:
            fixed = tsc[0]["fixed"]
            rid.append(("rec", ptc[-1], batch.add(rc.enc_recover, tsc[-1]["out"][1], ptc[n_it - 1]["out"], tsc[0]["times"], fixed)))
        ids.append(rid)
    yield
    for r, rid in zip(runs, ids):
        res.evaluations += 1
        replay = dict(kind="fit", ts=gen.ts_to_jsonable(r["ts"]), mu=r["info"]["mu"], kw=r["kw"])
        key = r["exc"] or "ok"
        stats["rescale_outcomes"][key] = stats["rescale_outcomes"].get(key, 0) + 1
        for kind, rec, i in rid:
            m = batch.get(i)
            if kind == "ts":
                if rec["out"] is None:
                    if m != "assert":
                        res.corr_failures.append(Violation("timescale-assert-differs", "recorded mutational_timescale call asserted, model did not", replay, "B"))
                elif not isinstance(m, dict) or not (rc.bits_equal(m["origin"], rec["out"][0]) and rc.bits_equal(m["adjust"], rec["out"][1])):
                    res.corr_failures.append(Violation("timescale-model-differs", "recorded mutational_timescale call differs from the Lean model", replay, "B"))
                stats["recorded_calls"] += 1
            elif kind == "pt":
                if rec["out"] is None:
                    if m != "assert":
                        res.corr_failures.append(Violation("pwl-assert-differs", "recorded piecewise_scale_point_estimate call asserted, model did not", replay, "B"))
                elif not isinstance(m, dict) or not rc.bits_equal(m["ys"], rec["out"]):
                    res.corr_failures.append(Violation("pwl-model-differs", "recorded piecewise_scale_point_estimate call differs from the Lean model", replay, "B"))
                else:
                    check_point_map(res, stats, rec["xs"], rec["fixed"], rec["ob"], rec["rb"], rec["out"], replay)
                stats["recorded_calls"] += 1
            elif kind == "po":
                out = rec["out"] if rec["out"] is not None else ("assert", "recorded")
                compare_posterior(res, stats, rec["case"], m, out, replay, "recorded in rescale()")
                stats["recorded_calls"] += 1
            else:
                if not isinstance(m, dict) or not rc.bits_equal(m["ob"], rec["out"]):
                    res.corr_failures.append(Violation("recover-model-differs", "breakpoint recovery in rescale() differs from the Lean model", replay, "B"))
                stats["recover_checked"] += 1
        if r["exc"] is not None:
            # since fix fa21a50 (repair of F5) mutational_timescale returns strictly increasing breaks, so no assertion of the
            # rescaling step may fire on a valid fit any more
            kind = "rescale-asserts-use-fewer-intervals" if rc.F5_MSG in r["exc"] else "rescale-asserts"
            res.violations.append(Violation(kind, f"ExpectationPropagation.rescale({r['kw']}) raised AssertionError: {r['exc']}", replay))
            continue
        # ---- the statement on rescale(): order of posterior means preserved, mapped mean, fixed untouched
        free = r["constraints"][:, 0] != r["constraints"][:, 1]
        b, a = r["before"], r["after"]
        m0 = (b[free, 0] + 1) / b[free, 1]
        m1 = (a[free, 0] + 1) / a[free, 1]
        order = np.argsort(m0, kind="stable")
        if np.any(np.diff(m1[order]) < -1e-9 * max(1.0, float(np.max(np.abs(m1))))):
            res.violations.append(Violation("rescale-reverses-order-of-means", "rescale() reversed the order of two nodes' posterior means", replay))
        po = r["calls"]["posterior"][0]
        for x, y in zip(m0, m1):
            want = float(rc.pwl_reference(po["ob"], po["rb"], x))
            if abs(y - want) > 1e-9 * max(abs(want), 1e-300):
                res.violations.append(Violation("rescale-mean-not-mapped", f"posterior mean {y!r} after rescale(), mapped old mean {want!r}", replay))
                break
        if np.any(a[free, 0] + 1 > r["kw"]["max_shape"] * (1 + 1e-9)):
            res.violations.append(Violation("posterior-shape-above-max", "a rescaled node posterior has shape above max_shape", replay))
        if not (po["ob"][0] == 0 and po["rb"][0] == 0):
            res.violations.append(Violation("rescale-map-does-not-fix-zero", "the breaks used by rescale() do not start at (0, 0)", replay))
        res.nontrivial.add(common.canon_key(dict(kw=r["kw"], n=r["ts"].num_nodes, m=r["ts"].num_mutations, s=r["info"]["seed"])))
    if runs:
        r = runs[0]
        res.sample(dict(kind="rescale()", nodes=r["ts"].num_nodes, trees=r["ts"].num_trees, mutations=r["ts"].num_mutations,
                        kw=r["kw"], outcome=r["exc"] or "ok"))


def stage_infer(ctx, res, stats):
    """The statement's shape clause through the public entry point: variational_gamma(max_shape=m < 1000) with rescaling on.
    Every posterior re-fitted by the rescaling step must have shape <= m, and the max_shape seen by the recorded
    piecewise_scale_posterior calls must be the one the user passed."""
    import tsdate
    from .. import dating
    rng = ctx.rng(5)
    dating.quiet()
    done, tries, n_target = 0, 0, ctx.n(10, 120)
    while done < n_target and tries < 4 * n_target:
        tries += 1
        ts, info = gen.gen_ts(rng, n=int(rng.integers(3, 9)), trees=int(rng.choice([1, 2, 4, 8])),
                              muts_per_edge=float(rng.choice([1, 3, 8])), polytomy=0.15)
        if ts.num_mutations == 0:
            continue
        kw = dict(max_shape=float(rng.choice([1.5, 2.0, 5.0, 20.0, 50.0])), rescaling_intervals=int(rng.choice([1, 5, 100, 1000])),
                  rescaling_iterations=int(rng.choice([1, 3, 10])), match_segregating_sites=bool(rng.random() < 0.4),
                  max_iterations=int(rng.choice([1, 2, 5])))
        replay = dict(kind="infer", ts=gen.ts_to_jsonable(ts), mu=info["mu"], kw=kw)
        with rc.record_rescale() as calls:
            try:
                with np.errstate(all="ignore"):
                    _, fit = tsdate.variational_gamma(ts, mutation_rate=info["mu"], return_fit=True, **kw)
                exc = None
            except BaseException as e:  # noqa: BLE001
                if isinstance(e, (KeyboardInterrupt, MemoryError)):
                    raise
                exc = f"{type(e).__name__}: {str(e)[:80]}"
        res.evaluations += 1
        done += 1
        key = "ok" if exc is None else exc.split(":")[0]
        stats["infer_outcomes"][key] = stats["infer_outcomes"].get(key, 0) + 1
        stats["infer_max_shape"][str(kw["max_shape"])] = stats["infer_max_shape"].get(str(kw["max_shape"]), 0) + 1
        if exc is not None:
            if exc.startswith("AssertionError"):
                res.violations.append(Violation("rescale-asserts", f"variational_gamma({kw}) raised {exc}", replay))
            continue            # other exceptions (e.g. tskit LibraryError after dating) belong to other properties
        # the argument seen by the rescaling step is the user's
        seen = sorted({rec["max_shape"] for rec in calls["posterior"]})
        stats["infer_posterior_calls"] += len(calls["posterior"])
        if seen and seen != [kw["max_shape"]]:
            res.violations.append(Violation(
                "rescale-max-shape-not-forwarded",
                f"variational_gamma(max_shape={kw['max_shape']}) rescaled its posteriors with max_shape={seen}", replay))
        # the clause itself, on the public accessors
        cap = kw["max_shape"] * (1 + 1e-12)
        for name, post in (("node", fit.node_posteriors()), ("mutation", fit.mutation_posteriors())):
            mean, var = np.asarray(post["mean"], dtype=float), np.asarray(post["variance"], dtype=float)
            ok = np.isfinite(mean) & np.isfinite(var) & (var > 0)
            shape = mean[ok] ** 2 / var[ok]
            stats["infer_posteriors_checked"] += int(ok.sum())
            if shape.size and np.any(shape > cap):
                res.violations.append(Violation(
                    f"{name}-posterior-shape-above-max-shape",
                    f"variational_gamma(max_shape={kw['max_shape']}, rescaling_intervals={kw['rescaling_intervals']}, "
                    f"rescaling_iterations={kw['rescaling_iterations']}): {int(np.sum(shape > cap))} {name} posterior(s) with shape "
                    f"up to {float(shape.max())!r}", replay))
        res.nontrivial.add(common.canon_key(dict(kw=kw, n=ts.num_nodes, m=ts.num_mutations, s=info["seed"])))
    if done:
        res.sample(dict(kind="variational_gamma(max_shape<1000) + rescaling", last_kw=kw))


def new_stats():
    return dict(area_modes={}, hyp_in_range=0, timescale_raised={}, timescale_ok=0, timescale_zero_mass=0, hyp_breaks_strict=0,
                merged=0, hyp_all_intervals_informative=0, pwl_pre_true=0, pwl_pre_false=0, order_reversed_within_rounding=0, posterior_rows=0,
                fit_raised={}, rescale_outcomes={}, recorded_calls=0, recover_checked=0, infer_outcomes={}, infer_max_shape={},
                infer_posterior_calls=0, infer_posteriors_checked=0)


def run(ctx):
    res = Result()
    import tsdate  # noqa: F401
    stats = new_stats()
    batch = rc.Batch()
    stages = [stage_area(ctx, res, stats, batch), stage_pwl(ctx, res, stats, batch), stage_posterior(ctx, res, stats, batch),
              stage_fits(ctx, res, stats, batch)]
    for g in stages:
        next(g)
    batch.run()
    for g in stages:
        for _ in g:
            pass
    stage_infer(ctx, res, stats)
    res.rule = ("B: (times, mutation counts, spans, edges) taken from generated tree sequences (times as is / jittered / tied / "
                "shuffled / rescaled by 1e-6..1e6; plain and size-biased counts) and small synthetic inputs with ties and "
                "non-positive edge lengths x max_intervals 1..1000; random strictly increasing break vectors x points incl. 0, every "
                "break, its float neighbours and points beyond the last break, plus break vectors violating each assertion; "
                "random gamma posteriors x quantile widths x max_shape; every call made inside real ExpectationPropagation."
                "rescale() runs (intervals 1..1000 x iterations 1..10 x match_segregating_sites x max_shape). Float model vs numba "
                "bit-for-bit. Public variational_gamma(max_shape in {1.5,2,5,20,50}) x rescaling_intervals x rescaling_iterations x "
                "match_segregating_sites: shape clause on node_posteriors()/mutation_posteriors() and the max_shape seen by the "
                "rescaling step. C: statement on the real outputs. Non-trivial = at least two epochs / a valid break vector / a "
                "completed rescale(); distinct by canonical hash of the input.")
    res.extra = dict(input_distribution=stats)
    return res


def search(ctx):
    res = Result()
    stats = new_stats()
    batch = rc.Batch()
    g = stage_fits(ctx, res, stats, batch)
    next(g)
    batch.run()
    for _ in g:
        pass
    res.corr_failures = []
    return res


def replay(ctx, payload):
    from ..common import h2f
    import tsdate  # noqa: F401
    d = payload.get("input") or payload.get("correspondence_input")
    res, stats, batch = Result(), new_stats(), rc.Batch()
    if d["kind"] == "tree":
        c = tree_from_replay(d)
        ia, it = batch.add(rc.enc_area, c), batch.add(rc.enc_timescale, c, d.get("maxint", 1))
        batch.run()
        A = rc.real_area(c)
        print("implementation: counts", list(A[0]), "offset", list(A[1]), "duration", list(A[2]), "index", list(A[3]))
        print("model         :", batch.get(ia))
        want = rc.direct_overlap(c)
        print("direct overlap: counts", [float(x) for x in want[0]], "offset", [float(x) for x in want[1]])
        T = rc.real_timescale(c, d.get("maxint", 1))
        print("mutational_timescale:", T if isinstance(T[0], str) else (list(T[0]), list(T[1])))
        print("model               :", batch.get(it))
        m = batch.get(ia)
        return isinstance(m, dict) and rc.bits_equal(m["c"], A[0]) and rc.bits_equal(m["o"], A[1]) and \
            all(abs(float(a) - float(w)) <= 1e-9 * max(1.0, abs(float(w))) for a, w in zip(A[0], want[0]))
    if d["kind"] == "pwl":
        xs, ob, rb = [h2f(x) for x in d["xs"]], [h2f(x) for x in d["ob"]], [h2f(x) for x in d["rb"]]
        fixed = [bool(b) for b in d["fixed"]]
        i = batch.add(rc.enc_pwl, xs, fixed, ob, rb)
        batch.run()
        out = rc.real_pwl(xs, fixed, ob, rb) if len(ob) == len(rb) else ("assert", "size")
        print("implementation:", out if isinstance(out, tuple) else list(out))
        print("model         :", batch.get(i))
        if isinstance(out, tuple):
            return batch.get(i) == "assert"
        check_point_map(res, stats, np.array(xs), np.array(fixed), np.array(ob), np.array(rb), out, d)
        for v in res.violations:
            print("  ", v.kind, v.what)
        return not res.violations and rc.bits_equal(batch.get(i)["ys"], out)
    if d["kind"] == "posterior":
        c = dict(post=np.array([[h2f(x) for x in row] for row in d["post"]]), fixed=np.array(d["fixed"], dtype=bool),
                 ob=np.array([h2f(x) for x in d["ob"]]), rb=np.array([h2f(x) for x in d["rb"]]), qw=d["qw"], max_shape=d["max_shape"])
        i = add_posterior(batch, c)
        batch.run()
        out = rc.real_posterior(c["post"], c["fixed"], c["ob"], c["rb"], c["qw"], c["max_shape"])
        print("implementation:", out if isinstance(out, tuple) else out.tolist())
        print("model points  :", batch.get(i))
        compare_posterior(res, stats, c, batch.get(i), out, d, "replay")
        for v in res.violations + res.corr_failures:
            print("  ", v.kind, v.what)
        return not (res.violations or res.corr_failures)
    if d["kind"] == "infer":
        import tsdate as _t
        ts = gen.ts_from_jsonable(d["ts"])
        with rc.record_rescale() as calls:
            _, fit = _t.variational_gamma(ts, mutation_rate=d["mu"], return_fit=True, **d["kw"])
        print("options:", d["kw"])
        print("max_shape seen by piecewise_scale_posterior:", sorted({r["max_shape"] for r in calls["posterior"]}))
        ok = True
        for name, post in (("node", fit.node_posteriors()), ("mutation", fit.mutation_posteriors())):
            mean, var = np.asarray(post["mean"], dtype=float), np.asarray(post["variance"], dtype=float)
            m = np.isfinite(mean) & np.isfinite(var) & (var > 0)
            shape = mean[m] ** 2 / var[m]
            print(f"largest {name} posterior shape:", float(shape.max()) if shape.size else None)
            ok = ok and not (shape.size and np.any(shape > d["kw"]["max_shape"] * (1 + 1e-12)))
        return bool(ok)
    if d["kind"] == "fit":
        ts = gen.ts_from_jsonable(d["ts"])
        fit = rc.make_fit(ts, d["mu"])
        before = fit.node_posterior.copy()
        try:
            fit.rescale(**d["kw"])
        except AssertionError as e:
            print("rescale() raised AssertionError:", e)
            return False
        free = fit.node_constraints[:, 0] != fit.node_constraints[:, 1]
        m0 = (before[free, 0] + 1) / before[free, 1]
        m1 = (fit.node_posterior[free, 0] + 1) / fit.node_posterior[free, 1]
        print("posterior means before:", list(m0))
        print("posterior means after :", list(m1))
        ok = bool(np.all(np.diff(m1[np.argsort(m0, kind="stable")]) >= -1e-9 * max(1.0, float(np.max(m1)))))
        print("order preserved:", ok)
        return ok
    return False
