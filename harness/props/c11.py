"""
C11 — discrete-time dating is invariant to node numbering and input time order.

A  theorems in Props/C11: the three iterator orders are valid grouped topological orders for every
   valid edge table; grouped passes (inside, outside), the forced pass and the maximization give the
   same result along any two valid orders of the same edges and commute with renumbering.
B  (1) the Lean sort-key models (lexsort / structured argsort + groupby) vs the real iterators of
   `BeliefPropagation`, exactly, on original / renumbered / re-timed inputs;
   (2) the Lean linear-space inside/outside pass model vs the real passes on the implementation's tables.
C  metamorphic oracle on the implementation: random renumberings of the non-sample nodes,
   order-preserving and order-changing (valid) re-timings of the non-sample nodes, and both combined;
   inside_outside (ignore_oldest_root False, and True with the highest id kept in place) and
   maximization; both probability spaces; dates compared at 1e-9 (maximization up to numerical ties).
"""

import numpy as np

from .. import common, gen, maximize_corr as mc, order_corr as oc
from ..common import Result, Violation

META = dict(
    level='Lean theorems: the sort keys of edges_by_child_desc and edges_by_child_then_parent_desc (stable lexsort / structured argsort models, run exactly against the real iterators) give, for EVERY edge table with parents strictly older than children, an order in which each node is finished before it is read and the edges of one node are adjacent; the table order does for the inside and forced passes when sorted by parent time; a grouped pass (abstract fold with commuting messages, instantiated by the linear-space inside and outside passes that are run against the real code) computes the same values along any two such orders and commutes with renumbering of nodes and edge rows; likewise the forced pass of the constraint step and (with first-index argmax, in exact arithmetic, no tie hypothesis needed) outside_maximization. Hence re-timing (which only changes the orders) and renumbering cannot change the dates. Partial: exact arithmetic (floating-point reassociation is what the 1e-9 tolerance of the oracle covers); log-space passes are covered by the oracle only; the prior construction is outside the model.',
    note='Lean kernel + {propext, Classical.choice, Quot.sound}; iterators compared exactly; sampled metamorphic runs of the real code; numpy lexsort/argsort and itertools.groupby semantics are modelled, not verified',
    technique='permutation/relabelling invariance of a DAG fold by rank induction + sortedness of mergeSort by lexicographic keys + metamorphic testing',
    ref='§3 C11',
)
LEAN_PROPS = ["TsdateVerif.Props.C11"]
LEAN_BUILD = ["TsdateVerif.Model.Proto", "TsdateVerif.Model.Passes"]
ASSUMPTIONS = [
    "np.lexsort is a stable sort, np.argsort(order=...) sorts lexicographically on the named fields (ties on all fields unspecified), itertools.groupby yields maximal runs",
    "theorems are in exact arithmetic; the oracle allows 1e-9 relative differences and numerically tied maximization timepoints",
    "with ignore_oldest_root=True the renumberings keep the highest node id in place (the defect C38/F11 is reported under C38)",
]

VARIANTS = ("renumber", "retime-monotone", "retime-shuffle", "renumber+retime")


def make_variant(ts, rng, kind, keep_last):
    n = ts.num_nodes
    ident = np.arange(n)
    if kind == "renumber":
        return oc.renumber(ts, rng, keep_last=keep_last)
    if kind == "retime-monotone":
        return oc.retime(ts, rng, "monotone"), ident
    if kind == "retime-shuffle":
        return oc.retime(ts, rng, "shuffle"), ident
    ts2 = oc.retime(ts, rng, "shuffle")
    return oc.renumber(ts2, rng, keep_last=keep_last)


def orders_changed(ts, ts2, old2new):
    """Did the transformation change the order in which some iterator visits the (mapped) edges?"""
    def visit(t, mapping=None):
        r = oc.real_orders(t)
        out = []
        for k in ("P", "C", "D"):
            seq = []
            for e in r[k]:
                p, c = int(t.edges_parent[e]), int(t.edges_child[e])
                if mapping is not None:
                    p, c = int(mapping[p]), int(mapping[c])
                seq.append((p, c, float(t.edges_left[e])))
            out.append(seq)
        return out
    new2old = np.argsort(old2new)
    return visit(ts) != visit(ts2, new2old)


def max_tie_explained(dA, dB, old2new):
    """Maximization indices differ between the two runs: acceptable only if every top-most differing node
    (all of whose parents agree) is a numerical tie under the rule's scores."""
    idxA, idxB = dA["idx"], dB["idx"][old2new]
    diff = set(np.where(idxA != idxB)[0].tolist())
    groups = mc.groups_of(dA["order"])
    for u in sorted(diff):
        parents = [p for p, _ in groups.get(u, [])]
        if any(p in diff for p in parents):
            continue            # consequence of a difference higher up
        if u in groups:
            y, s = mc.rule_scores(dA, u, idxA)
            if idxB[u] > y or not (mc.near_max(dA["space"], s, idxB[u]) and mc.near_max(dA["space"], s, idxA[u])):
                return False
        else:
            row = dA["inside"][u]
            if not (mc.near_max(dA["space"], row, idxB[u]) and mc.near_max(dA["space"], row, idxA[u])):
                return False
    return True


def run_method(ts, info, method, space, eps, tp, ignore, std):
    if method == "maximization":
        r = mc.run_impl(ts, info, space, eps, tp)
    else:
        r = oc.run_io(ts, info, space, eps, tp, ignore, std)
    return r


def one_input(ctx, rng, res, stats, key_cases, io_cases):
    ts, info = oc.draw_input(rng)
    if ts.num_mutations == 0 or ts.num_nodes - ts.num_samples < 2:
        return False
    space = str(rng.choice(["linear", "logarithmic"]))
    eps = float(rng.choice([1e-8, 1e-6, 1e-3]))
    tp = oc.draw_timepoints(rng, info["Ne"])
    method = str(rng.choice(["inside_outside", "inside_outside", "maximization"]))
    ignore = bool(method == "inside_outside" and rng.random() < 0.35)
    std = bool(rng.random() < 0.6)
    base = run_method(ts, info, method, space, eps, tp, ignore, std)
    if not base["ok"]:
        stats["raised"][base["exc"]] = stats["raised"].get(base["exc"], 0) + 1
        return False
    key_cases.append(ts)
    if method == "inside_outside" and space == "linear" and not ignore:
        io_cases.append((base, ts, std, oc.replay_dict(ts, info, space=space, eps=eps, timepoints=tp, standardize=std,
                                                       method=method, ignore=ignore, variant="none",
                                                       old2new=np.arange(ts.num_nodes))))
    dA = mc.extract(base["fit"], space, eps) if method == "maximization" else None
    a = np.array(base["out"].nodes_time)
    stats["methods"][method + ("+ignore" if ignore else "")] = stats["methods"].get(method + ("+ignore" if ignore else ""), 0) + 1
    for kind in VARIANTS:
        ts2, old2new = make_variant(ts, rng, kind, keep_last=ignore)
        key_cases.append(ts2)
        r2 = run_method(ts2, info, method, space, eps, tp, ignore, std)
        res.evaluations += 1
        rep = oc.replay_dict(ts, info, space=space, eps=eps, timepoints=tp, standardize=std, method=method,
                             ignore=ignore, variant=kind, old2new=np.asarray(old2new),
                             new_times=np.asarray(ts2.nodes_time, dtype=float))
        if not r2["ok"]:
            res.violations.append(Violation(f"{kind}-makes-{method}-raise",
                                            f"{method} ({space}) raised {r2['exc']} after {kind}: {r2['msg']}", rep))
            continue
        changed = orders_changed(ts, ts2, old2new)
        stats["orders_changed"][kind] = stats["orders_changed"].get(kind, 0) + int(changed)
        if changed:
            res.nontrivial.add(common.canon_key([rep["ts"]["edges"], rep["old2new"], rep["new_times"], method, space]))
        b = np.array(r2["out"].nodes_time)[old2new]
        if oc.close(a, b):
            continue
        if method == "maximization":
            dB = mc.extract(r2["fit"], space, eps)
            if max_tie_explained(dA, dB, old2new):
                stats["max_ties"] += 1
                continue
        res.violations.append(Violation(
            f"{kind}-changes-dates-{method}" + ("-ignore-oldest-root" if ignore else ""),
            f"{method} ({space}, eps={eps}): dates differ after {kind} (max rel. difference {oc.reldiff(a, b):.2e})", rep))
    res.sample(dict(nodes=ts.num_nodes, trees=ts.num_trees, method=method, space=space, ignore_oldest_root=ignore,
                    standardize=std, variants=list(VARIANTS)))
    return True


def correspondence(res, stats, key_cases, io_cases):
    texts = [oc.encode_keys(i, ts) for i, ts in enumerate(key_cases)]
    nk = len(texts)
    metas = []
    for (r, ts, std, rep) in io_cases:
        d = oc.extract_io(r["fit"])
        texts.append(oc.encode_io(len(texts), d, "none", std))
        metas.append((r, d, rep))
    out = oc.run_driver("".join(texts))
    for i, ts in enumerate(key_cases):
        ln = out.get(i, "")
        model = None if "bad-op" in ln or not ln else oc.parse_keys(ln)
        bad = oc.compare_keys(ts, oc.real_orders(ts), model)
        stats["key_cases"] += 1
        for what in bad:
            res.corr_failures.append(Violation("iterator-order-differs", what,
                                               dict(kind="keys", ts=gen.ts_to_jsonable(ts)), stage="B"))
    for j, (r, d, rep) in enumerate(metas):
        ln = out.get(nk + j, "")
        m = None if "bad-op" in ln or not ln else oc.parse_io(ln, d["G"])
        stats["pass_cases"] += 1
        if m is None:
            res.corr_failures.append(Violation("pass-model-rejects", "Lean driver answered bad-op", rep, stage="B"))
            continue
        stats["hyp_valid_orders"] += int(m["hyp_ins"] and m["hyp_out"])
        bad = oc.compare_io(r["fit"], m)
        if bad:
            res.corr_failures.append(Violation("pass-model-differs", "inside/outside pass differs from the Lean model: "
                                               + "; ".join(bad[:3]), rep, stage="B"))


def new_stats():
    return dict(raised={}, methods={}, orders_changed={}, max_ties=0, key_cases=0, pass_cases=0, hyp_valid_orders=0)


def run(ctx):
    import time
    res = Result()
    t0 = time.time()
    import tsdate  # noqa: F401
    stats = new_stats()
    stats["t_import"] = round(time.time() - t0, 1)
    rng = ctx.rng(1)
    key_cases, io_cases = [], []
    done = tries = 0
    target = ctx.n(30, 250)
    while done < target and tries < 4 * target:
        tries += 1
        done += int(one_input(ctx, rng, res, stats, key_cases, io_cases))
    stats["t_metamorphic"] = round(time.time() - t0 - stats["t_import"], 1)
    t1 = time.time()
    correspondence(res, stats, key_cases, io_cases)
    stats["t_lean_driver"] = round(time.time() - t1, 1)
    res.rule = ("msprime tree sequences (2-7 samples at time 0, 1-12 trees, optional polytomies) x {inside_outside, "
                "inside_outside with ignore_oldest_root, maximization} x probability space x eps x custom timepoints; each "
                "compared with 4 transformed copies (renumbering of non-sample nodes; order-preserving re-timing; "
                "order-changing valid re-timing; both). Non-trivial = the transformation changed the order in which at least "
                "one of the three iterators visits the edges; distinct by hash of (edges, renumbering, new times, method, space).")
    res.extra = dict(input_distribution=stats,
                     hypothesis_hit_rates=dict(valid_pass_orders=stats["hyp_valid_orders"] / max(1, stats["pass_cases"])))
    return res


def search(ctx):
    res = Result()
    stats = new_stats()
    rng = ctx.rng(9)
    k, io = [], []
    for _ in range(ctx.n(4, 12)):
        one_input(ctx, rng, res, stats, k, io)
    return res


def replay(ctx, payload):
    d = payload["input"] if "input" in payload else payload.get("correspondence_input")
    ts = gen.ts_from_jsonable(d["ts"])
    if d.get("kind") == "keys":
        out = oc.run_driver(oc.encode_keys(0, ts))
        bad = oc.compare_keys(ts, oc.real_orders(ts), oc.parse_keys(out[0]))
        print("iterator mismatches:", bad)
        return not bad
    info = dict(Ne=d["Ne"], mu=d["mu"])
    tp = np.array([common.h2f(x) for x in d["timepoints"]])
    eps = common.h2f(d["eps"])
    old2new = np.array(d["old2new"])
    # rebuild the transformed copy: new times, then renumbering
    import tskit
    tables = ts.dump_tables()
    new2old = np.argsort(old2new)
    if "new_times" in d:
        nt = np.array([common.h2f(x) for x in d["new_times"]])       # indexed by new ids
        tables.nodes.time = nt[old2new]
        tables.mutations.time = np.full(ts.num_mutations, tskit.UNKNOWN_TIME)
        tables.sort()
    tables.subset(new2old.astype(np.int32), record_provenance=False)
    tables.sort()
    tables.build_index()
    tables.compute_mutation_parents()
    ts2 = tables.tree_sequence()
    rA = run_method(ts, info, d["method"], d["space"], eps, tp, d["ignore"], d["standardize"])
    rB = run_method(ts2, info, d["method"], d["space"], eps, tp, d["ignore"], d["standardize"])
    if not (rA["ok"] and rB["ok"]):
        print("raised:", rA.get("exc"), rB.get("exc"))
        return False
    a, b = np.array(rA["out"].nodes_time), np.array(rB["out"].nodes_time)[old2new]
    print("dates, original         :", a.tolist())
    print("dates, transformed copy :", b.tolist())
    print("max relative difference :", oc.reldiff(a, b))
    return oc.close(a, b)
