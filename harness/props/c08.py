"""
C08 — dates depend only on topology, sample times and mutation placement.

A  Props/C08: read-set of the dating path regenerated from the source (translate/readset.py) ⊆ allowed
   reads, no forbidden accessor, individual data only behind the `individuals_unphased` guard (all by
   `decide`); `DatingInput` projection: inputs agreeing on the projected data are dated identically by
   any function of it; monomorphic sites do not enter the projection.
B  the Lean `project` is run on the real tables of each (input, perturbed input) pair: the perturbations
   this check calls irrelevant must leave the projection unchanged (hypothesis of `dating_congr`), the
   control perturbation (a mutation moved to another node) must change it.
C  perturbation oracle on the implementation: metadata, allele states, populations, provenance,
   migrations, time units, existing mutation times, reference sequence, monomorphic sites, and (phased)
   individuals are changed -> node times, mutation times, mn/vr metadata and the fit object's
   posteriors must be BIT-IDENTICAL, for all three methods.
"""

from collections import Counter

import numpy as np

from .. import common, dating, gen, pipeline_corr as pc
from ..common import Result, Violation, f2h

META = dict(
    level='Lean theorems: every tskit attribute read by any function reachable from core.date (plus util.constrain_ages; output stage excluded) is in an explicit whitelist of topology / node time / sample flag / mutation placement / count accessors, none of the forbidden ones (allele states, metadata, schemas, populations, provenance, migrations, genotypes, ts.tables, mutation times/parents, time_units, dynamic getattr) occurs, individual data is used only behind individuals_unphased[...] which is all-False when singletons are phased (regenerated read-set, re-proved each run); guarded steps with no unphased individual leave the state unchanged; DatingInput projection: table collections agreeing on sequence length, node times, sample flags, edges, site positions and (site, node) of every mutation (and nodes_individual when unphased) have equal projections and are dated identically by any function of the projection; inserting a monomorphic site leaves the projection unchanged. The read-set is a syntactic over-approximation (attribute names, name-based call graph); that the real algorithms are functions of the projection is tied by the read-set plus the bit-identical perturbation runs (sampled), not proved about the numerics.',
    note='Lean kernel + {propext, Classical.choice, Quot.sound}; read-set translator (ast + tskit introspection); sampled perturbation runs compared bit for bit',
    technique='non-interference by typing (projection) + regenerated read-set + metamorphic perturbation runs',
    ref='§3 C08',
)
LEAN_PROPS = ["TsdateVerif.Props.C08"]
LEAN_BUILD = ["TsdateVerif.Model.Proto", "TsdateVerif.Model.DatingInput"]
TRANSLATORS = ["readset"]
ASSUMPTIONS = [
    "the read-set translator's universe (public attribute names of tskit's TreeSequence/Tree/table/row classes) covers every way of reading tskit data; numba kernels receive plain arrays only",
    "tskit's simplify (used once, for the conditional-coalescent prior) with filter_populations/individuals=False yields a topology that depends only on edges, node times and sample flags",
    "`Mutation.edge` (used by the discrete likelihood) is a function of edges, site position and mutation node",
]

METHODS = ["variational_gamma", "inside_outside", "maximization"]


# ----------------------------------------------------------------------------- perturbations

def _alt_state(rng, s):
    return str(rng.choice([x for x in ["A", "C", "G", "T", "", "AC", "del", "N"] if x != s]))


def p_metadata(ts, rng):
    import tskit
    t = ts.dump_tables()
    v1, v2 = str(rng.choice(pc.MD_VARIANTS)), str(rng.choice(pc.MD_VARIANTS))
    t.nodes.drop_metadata()
    t.mutations.drop_metadata()
    pc.set_md_variant(t.nodes, v1, rng, "node_default")
    pc.set_md_variant(t.mutations, v2, rng, "mut_default")
    perm = tskit.MetadataSchema.permissive_json()
    for tab in (t.sites, t.individuals):
        tab.metadata_schema = perm
        tab.packset_metadata([perm.validate_and_encode_row({"z": int(rng.integers(0, 99))}) for _ in range(tab.num_rows)])
    t.metadata_schema = perm
    t.metadata = {"changed": int(rng.integers(0, 99))}
    return t.tree_sequence(), f"metadata({v1},{v2})"


def p_states(ts, rng):
    t = ts.dump_tables()
    anc = [_alt_state(rng, s.ancestral_state) for s in ts.sites()]
    der = [_alt_state(rng, m.derived_state) for m in ts.mutations()]
    t.sites.packset_ancestral_state(anc)
    t.mutations.packset_derived_state(der)
    return t.tree_sequence(), "states"


def p_populations(ts, rng):
    t = ts.dump_tables()
    t.populations.clear()
    t.populations.metadata_schema = __import__("tskit").MetadataSchema.permissive_json()
    k = int(rng.integers(1, 5))
    for j in range(k):
        t.populations.add_row(metadata={"name": f"q{j}"})
    t.nodes.population = rng.integers(-1, k, size=t.nodes.num_rows).astype(np.int32)
    if t.migrations.num_rows:
        t.migrations.clear()
    return t.tree_sequence(), "populations"


def p_provenance(ts, rng):
    t = ts.dump_tables()
    if rng.random() < 0.5:
        t.provenances.clear()
    for j in range(int(rng.integers(0, 3))):
        t.provenances.add_row(record='{"x": %d}' % j, timestamp="1999-01-01T00:00:00")
    t.time_units = str(rng.choice(["uncalibrated", "years", "generations", "unknown"]))
    if rng.random() < 0.5:
        t.reference_sequence.data = "ACGT"
    return t.tree_sequence(), "provenance+time_units+refseq"


def _placement(ts):
    """(position, node) of every mutation, in table order"""
    return list(zip(ts.sites_position[ts.mutations_site].tolist(), ts.mutations_node.tolist()))


def insert_sites(ts, positions, rng):
    """Copy of ts with mutation-free sites at the given (unused) positions. The site table is rebuilt in
    position order and the mutations' site ids renumbered by hand — no sort(), so the mutation rows keep their
    order (this is exactly `Pipeline.insertSite`, repeated)."""
    t = ts.dump_tables()
    old = t.sites.copy()
    new_pos = sorted(float(p) for p in positions)
    t.sites.clear()
    remap = np.zeros(old.num_rows, dtype=np.int32)
    j = 0
    for i in range(old.num_rows):
        while j < len(new_pos) and new_pos[j] < old.position[i]:
            t.sites.add_row(position=new_pos[j], ancestral_state=str(rng.choice(["A", "G", ""])))
            j += 1
        remap[i] = t.sites.append(old[i])
    while j < len(new_pos):
        t.sites.add_row(position=new_pos[j], ancestral_state=str(rng.choice(["A", "G", ""])))
        j += 1
    t.mutations.site = remap[t.mutations.site]
    return t.tree_sequence()


def free_positions(ts, rng, k):
    """k unused integer positions: some between existing sites, some on the flanks, the rest anywhere."""
    L = int(ts.sequence_length)
    used = set(int(x) for x in ts.sites_position)
    free = np.array([x for x in range(L) if x not in used])
    if free.size < k or k <= 0:
        return None
    picked = set()
    if ts.num_sites:
        lo, hi = float(np.min(ts.sites_position)), float(np.max(ts.sites_position))
        inner = free[(free > lo) & (free < hi)]
        flank = free[(free < lo) | (free > hi)]
        if inner.size and k >= 1:
            picked.add(int(rng.choice(inner)))
        if flank.size and k >= 2:
            picked.add(int(rng.choice(flank)))
    rest = np.array([x for x in free if x not in picked])
    need = k - len(picked)
    if need > 0:
        picked |= set(int(x) for x in rng.choice(rest, size=need, replace=False))
    return sorted(picked)


def monomorphic_counts(ts, rng):
    """How many mutation-free sites to add: a random number, and the boundary counts at which the perturbed
    input has exactly as many sites as mutations although sites and mutations are not one-to-one."""
    counts = [("random", int(rng.integers(1, 6)))]
    surplus = ts.num_mutations - ts.num_sites        # > 0 iff some site carries several mutations
    if surplus > 0:
        counts.append(("surplus", surplus))
        counts.append(("surplus+1", surplus + 1))
        if surplus > 1:
            counts.append(("surplus-1", surplus - 1))
    return counts


def p_monomorphic(ts, rng, k=None, tag="random"):
    if k is None:
        k = int(rng.integers(1, 6))
    pos = free_positions(ts, rng, k)
    if pos is None:
        return None, "monomorphic"
    ts2 = insert_sites(ts, pos, rng)
    if _placement(ts2) != _placement(ts):
        return None, "monomorphic"
    return ts2, f"monomorphic({tag}:+{k})"


def p_mutation_times(ts, rng):
    import tskit
    t = ts.dump_tables()
    mt = t.mutations.time
    if np.all(np.isnan(mt)):
        t.compute_mutation_times()      # may re-sort the mutations of a site (then it is not a pure change of times)
    else:
        t.mutations.time = np.full_like(mt, tskit.UNKNOWN_TIME)
    ts2 = t.tree_sequence()
    if _placement(ts2) != _placement(ts):
        return None, "mutation_times"
    return ts2, "mutation_times"


def p_individuals(ts, rng):
    """only for phased runs: scramble / drop / invent individuals"""
    import tskit
    t = ts.dump_tables()
    mode = str(rng.choice(["drop", "scramble", "invent"]))
    if mode == "drop" or t.individuals.num_rows == 0 and mode == "scramble":
        t.nodes.individual = np.full(t.nodes.num_rows, -1, dtype=np.int32)
        t.individuals.clear()
        mode = "drop"
    elif mode == "scramble":
        ind = t.nodes.individual
        has = np.where(ind >= 0)[0]
        ind[has] = rng.permutation(ind[has])
        t.nodes.individual = ind
    else:
        t.individuals.clear()
        ind = np.full(t.nodes.num_rows, -1, dtype=np.int32)
        for u in range(t.nodes.num_rows):
            if rng.random() < 0.5:
                ind[u] = t.individuals.add_row(flags=int(rng.integers(0, 3)))
        t.nodes.individual = ind
    return t.tree_sequence(), f"individuals({mode})"


def p_migrations(ts, rng):
    t = ts.dump_tables()
    while t.populations.num_rows < 2:
        try:
            t.populations.add_row(metadata={"name": f"m{t.populations.num_rows}", "description": None})
        except Exception:
            t.populations.drop_metadata()
            t.populations.add_row()
    t.migrations.clear()
    for tm in sorted(float(x) for x in rng.uniform(0, 5, size=int(rng.integers(1, 4)))):
        t.migrations.add_row(left=0, right=ts.sequence_length, node=int(rng.integers(0, ts.num_nodes)),
                             source=0, dest=1, time=tm)
    return t.tree_sequence(), "migrations"


def p_control(ts, rng):
    """NOT irrelevant: move one mutation onto another node."""
    t = ts.dump_tables()
    if ts.num_mutations == 0 or ts.num_nodes < 2:
        return None, "control"
    i = int(rng.integers(0, ts.num_mutations))
    node = t.mutations.node
    pos = ts.sites_position[ts.mutations_site[i]]
    tree = ts.at(pos)
    cand = [u for u in tree.nodes() if u != node[i] and tree.parent(u) != -1]
    if not cand:
        return None, "control"
    node[i] = int(rng.choice(cand))
    t.mutations.node = node
    t.mutations.parent = np.full_like(t.mutations.parent, -1)
    t.mutations.time = np.full_like(t.mutations.time, __import__("tskit").UNKNOWN_TIME)
    try:
        t.sort()
        t.build_index()
        t.compute_mutation_parents()
        return t.tree_sequence(), "control(move-mutation)"
    except Exception:
        return None, "control"


# ----------------------------------------------------------------------------- observation of a run

def observe(ts_out, fit, method):
    """Everything the property calls 'output times and posteriors', in a perturbation-proof keying."""
    obs = {}
    obs["nodes_time"] = [f2h(x) for x in ts_out.nodes_time]
    pos = ts_out.sites_position[ts_out.mutations_site]
    obs["mutations_time"] = Counter((f2h(p), int(n), f2h(tm)) for p, n, tm in zip(pos, ts_out.mutations_node, ts_out.mutations_time))
    t = ts_out.tables
    if method != "maximization" and t.nodes.metadata_schema.schema is not None:   # maximization passes input metadata through
        md = [n.metadata for n in ts_out.nodes()]
        if all(isinstance(d, dict) and "mn" in d for d in md):
            obs["node_mnvr"] = [(f2h(d["mn"]), f2h(d["vr"])) for d in md]
    if fit is not None:
        if method == "variational_gamma":
            npst = fit.node_posteriors()
            obs["fit_nodes"] = [(f2h(a), f2h(b)) for a, b in zip(npst["mean"], npst["variance"])]
            mp = fit.mutation_posteriors()
            # fit rows are indexed by input mutation id; key them by (position, input order within position)
            obs["fit_muts"] = sorted(Counter((f2h(a), f2h(b)) for a, b in zip(mp["mean"], mp["variance"])).items())
        elif method == "inside_outside":
            obs["fit_grid"] = common.canon_key([f2h(x) for x in np.asarray(fit.posterior_grid.grid_data).ravel()])
        else:
            obs["fit_mean"] = [f2h(x) for x in fit.posterior_mean]
    return obs


def first_difference(a, b):
    for k in a:
        if k not in b:
            return f"{k} missing"
        if a[k] != b[k]:
            if isinstance(a[k], list) and len(a[k]) == len(b[k]):
                j = next(i for i in range(len(a[k])) if a[k][i] != b[k][i])
                return f"{k}[{j}]: {a[k][j]} vs {b[k][j]}"
            return f"{k} differs"
    return None


def project_block(cid, ts, phased):
    return "\n".join([f"case {cid}", "op project", f"phased {1 if phased else 0}"] + pc.abstract_tables(ts.dump_tables()) + ["end"]) + "\n"


# ----------------------------------------------------------------------------- one input

def one_input(rng, res, stats, blocks, expect):
    method = str(rng.choice(METHODS, p=[0.45, 0.3, 0.25]))
    unphased = method == "variational_gamma" and rng.random() < 0.3
    discrete = method != "variational_gamma"
    extra = {}
    if rng.random() < 0.5:      # finite-sites regime: short genome, many mutations per site, several trees
        extra = dict(L=float(rng.choice([200, 500, 1000])), trees=int(rng.choice([5, 10, 20])),
                     muts_per_edge=float(rng.choice([3, 8])))
    ts, info = pc.rich_ts(rng, discrete_ok=discrete or rng.random() < 0.5, unphased=unphased, **extra)
    stats["multi_mutation_site_inputs"] += int(ts.num_mutations > ts.num_sites)
    if ts.num_mutations == 0:
        return
    kw = dating.method_options(rng, method, info)
    kw["mutation_rate"] = info["mu"]
    if method == "variational_gamma":
        kw["rescaling_intervals"] = int(rng.choice([0, 1, 3]))
        kw["max_iterations"] = int(rng.choice([1, 2, 4]))
        if unphased:
            kw["singletons_phased"] = False
    kw["return_fit"] = True
    kw["set_metadata"] = True          # so that mn/vr are always there to compare
    base = dating.run_date(ts, method=method, **kw)
    res.evaluations += 1
    stats["methods"][method] = stats["methods"].get(method, 0) + 1
    if not base["ok"]:
        key = f"{base['exc']}: {base['msg'][:50]}"
        stats["raised"][key] = stats["raised"].get(key, 0) + 1
        return
    obs0 = observe(base["out"][0], base["out"][1], method)
    perts = [p_metadata, p_states, p_populations, p_provenance, p_mutation_times]
    for tag, k in monomorphic_counts(ts, rng):
        perts.append(lambda t, r, k=k, tag=tag: p_monomorphic(t, r, k, tag))
    if not unphased:
        perts.append(p_individuals)
    if not discrete:
        perts.append(p_migrations)
    perts.append(p_control)
    cid0 = len(blocks)
    blocks.append(project_block(cid0, ts, not unphased))
    for p in perts:
        ts2, label = p(ts, rng)
        if ts2 is None:
            continue
        name = label.split("(")[0]
        r = dating.run_date(ts2, method=method, **kw)
        res.evaluations += 1
        replay = dict(kind="perturb", ts=pc.ts_to_b64(ts), ts_perturbed=pc.ts_to_b64(ts2), perturbation=label,
                      method=method, kw=kw)
        cid = len(blocks)
        blocks.append(project_block(cid, ts2, not unphased))
        expect[cid] = (cid0, name != "control", replay, label)
        if not r["ok"]:
            if name == "control":
                continue
            res.violations.append(Violation(f"perturbed-input-rejected:{name}",
                                            f"{method}: dating succeeds on the input but raises {r['exc']}: {r['msg'][:100]} after {label}",
                                            replay))
            continue
        obs = observe(r["out"][0], r["out"][1], method)
        d = first_difference(obs0, obs)
        if name == "control":
            stats["control_runs"] += 1
            stats["control_changed_output"] += int(d is not None)
            continue
        stats["perturbations"][name] = stats["perturbations"].get(name, 0) + 1
        res.nontrivial.add(common.canon_key([replay["ts"][:1500], label, method]))
        if d is not None:
            res.violations.append(Violation(f"output-depends-on:{name}", f"{method}: after {label} the output changed: {d}", replay))
    res.sample(dict(method=method, kw={k: repr(v) for k, v in kw.items()}, nodes=ts.num_nodes, muts=ts.num_mutations,
                    sites=ts.num_sites, individuals=ts.num_individuals, unphased=unphased))


def check_projections(res, stats, blocks, expect):
    if not blocks:
        return
    proj = {}
    for ln in common.lean_driver("Pipeline", "".join(blocks)):
        w = ln.split(" ", 1)
        if len(w) == 2:
            proj[int(w[0])] = w[1]
    for cid, (cid0, irrelevant, replay, label) in expect.items():
        a, b = proj.get(cid0), proj.get(cid)
        if a is None or b is None or a == "bad-op" or b == "bad-op":
            res.corr_failures.append(Violation("projection-model-rejected-input", f"Lean project gave no answer for {label}", replay, stage="B"))
            continue
        same = a == b
        if irrelevant:
            stats["hyp_projection_equal"] += int(same)
            stats["hyp_projection_total"] += 1
            if not same:
                res.corr_failures.append(Violation("perturbation-changes-projection",
                                                   f"{label} is treated as irrelevant by the check but changes the model's DatingInput", replay, stage="B"))
        else:
            stats["control_projection_differs"] += int(not same)


def new_stats():
    return dict(methods={}, raised={}, perturbations={}, control_runs=0, control_changed_output=0,
                control_projection_differs=0, hyp_projection_equal=0, hyp_projection_total=0,
                multi_mutation_site_inputs=0)


def run(ctx):
    import tsdate  # noqa: F401
    res = Result()
    stats = new_stats()
    rng = ctx.rng(1)
    blocks, expect = [], {}
    for _ in range(ctx.n(12, 220)):
        one_input(rng, res, stats, blocks, expect)
    check_projections(res, stats, blocks, expect)
    res.rule = ("generated inputs x 3 methods x (un)phased; each dated, then re-dated after each perturbation (node/mutation/"
                "site/individual/top-level metadata and schemas; ancestral and derived states; populations; provenance, time "
                "units, reference sequence; mutation-free sites added between existing sites and on the flanks, a random number "
                "and the boundary numbers (#mutations - #sites, +-1) on finite-sites inputs; existing mutation times; individuals when phased; "
                "migrations for variational_gamma); outputs (node times, mutation times by (position,node), mn/vr, fit "
                "posteriors) compared bit for bit; control = one mutation moved to another node. Non-trivial = a perturbed "
                "run that was compared; distinct by hash of (input, perturbation, method).")
    res.extra = dict(input_distribution=stats,
                     hypothesis_hit_rates=dict(projection_equal=f"{stats['hyp_projection_equal']}/{stats['hyp_projection_total']}",
                                               control_changes_output=f"{stats['control_changed_output']}/{stats['control_runs']}"))
    return res


def search(ctx):
    res = Result()
    stats = new_stats()
    rng = ctx.rng(3)
    blocks, expect = [], {}
    for _ in range(ctx.n(4, 20)):
        one_input(rng, res, stats, blocks, expect)
    return res


def replay(ctx, payload):
    d = payload.get("input") or payload.get("correspondence_input")
    ts, ts2 = pc.ts_from_b64(d["ts"]), pc.ts_from_b64(d["ts_perturbed"])
    r1 = dating.run_date(ts, method=d["method"], **d["kw"])
    r2 = dating.run_date(ts2, method=d["method"], **d["kw"])
    print("perturbation:", d["perturbation"])
    for name, r in (("input", r1), ("perturbed", r2)):
        print(f"date({name}):", "returned" if r["ok"] else f"raised {r['exc']}: {r['msg']}")
    if not (r1["ok"] and r2["ok"]):
        return False
    diff = first_difference(observe(*r1["out"], d["method"]), observe(*r2["out"], d["method"]))
    print("implementation outputs:", "bit-identical" if diff is None else f"differ at {diff}")
    phased = d["kw"].get("singletons_phased") is not False
    lines = common.lean_driver("Pipeline", project_block(0, ts, phased) + project_block(1, ts2, phased))
    same = len(lines) == 2 and lines[0].split(" ", 1)[1] == lines[1].split(" ", 1)[1]
    print("model (DatingInput projections):", "equal" if same else "different")
    return diff is None
