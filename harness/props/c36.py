"""
C36 — the precomputed prior cache is crash-safe and exact.

A  theorems in Props/C36: atomic_protocol_safe / safe_protocol_safe (any number of writers, any
   schedule, any crash: the cache name holds its initial content, nothing, or one writer's complete
   content), reader_exact, reader_validates (every prefix of an encoding is rejected or read back
   exactly), cache_crash_safe (the composition, with the reader's three separate looks), and the
   pre-fix protocol as counter-examples (direct_write_unsafe, direct_write_unsafe_two_writers).
B  the REAL writer's and reader's file operations are traced and abstracted to the model's op
   alphabet; the Lean model runs them (final state compared byte-for-byte with the real directory),
   checks the shape/discipline hypotheses of the theorems on them, and enumerates every crash cut and
   every two-writer interleaving; two real writer threads + a real reader thread run under imposed
   schedules with kills; the reader model is compared with the real reader on EVERY byte offset of a
   real cache file and on a menu of corruptions.
C  oracle on the implementation: real crashes (fork + RLIMIT_FSIZE: the kernel kills the writer when
   its file reaches k bytes; or EFBIG error path), in-process kills at every byte offset, truncated
   cache files at every offset, then a later run must use exactly the freshly computed table.
"""

import os
import time

import numpy as np

from .. import cachefs_corr as cf
from .. import common
from ..common import Result, Violation

META = dict(
    level='Lean theorems over a file-system model (path -> optional bytes; ops createTemp/openTrunc/append/flush/rename/remove; any number of writers under an arbitrary schedule; a crash keeps any prefix of a writer and any prefix of the chunk being written): writers of the post-fix shape never expose anything but a complete encoding under the cache name; the validating reader (footer line, parse, shape (n,2), finite) rejects every prefix of an encoding or returns the exact table; composition with the reader looking three times while writers act. Pre-fix protocol kept as proved counter-examples. Tied to the code by tracing the real writer/reader file operations into the model (state compared byte-for-byte, hypotheses evaluated on the traces), exhaustive reader correspondence over every byte offset of a real cache file, scheduled real threads, and real kernel-delivered crashes. Outside: durability after power loss (no fsync), inode-level semantics of descriptors that outlive their path, other file systems than the local one, numpy text parsing beyond the float syntax used.',
    note='Lean kernel + {propext, Classical.choice, Quot.sound}; POSIX rename atomicity and mkstemp O_EXCL uniqueness by contract (cross-checked with strace in the thorough tier); np.savetxt/np.genfromtxt by contract, %.18e round trip checked bit-for-bit per run',
    technique='invariant over interleaved op lists + prefix-closed parser lemma; traced-operation and exhaustive byte-offset correspondence',
    ref='§3 C36',
)
LEAN_PROPS = ["TsdateVerif.Props.C36"]
LEAN_BUILD = ["TsdateVerif.Model.Proto", "TsdateVerif.Model.CacheFS"]
ASSUMPTIONS = [
    "os.replace is atomic and mkstemp names are unique (POSIX rename / O_EXCL), taken by contract",
    "a crash is the death of a process (page cache survives); durability after power loss is not modelled",
    "the model writes to paths, not inodes; equivalent under the theorem hypotheses (no descriptor outlives its path)",
    "all cache traffic of the check goes to /verif/.cache/xdg-<pid> (removed afterwards)",
]

FOOT = None


def _prior():
    from tsdate import prior
    return prior


def fresh_table(n):
    """The table computed from the formulas, with no file involved."""
    prior = _prior()
    t = np.zeros((n, 2))
    tips = np.arange(2, n + 1)
    t[1:, 0] = tips / n
    t[1:, 1] = prior.conditional_coalescent_variance(n + 1)[tips]
    return t


def same_bits(a, b):
    return a is not None and b is not None and a.shape == b.shape and a.tobytes() == b.tobytes()


def final_path(n):
    return _prior().ConditionalCoalescentTimes.get_precalc_cache(n)


def real_reader(path, n):
    return _prior().ConditionalCoalescentTimes.read_precalc_cache(path, n)


def writer_obj():
    return _prior().ConditionalCoalescentTimes(0)


def rows_to_array(s):
    """driver row text 'tok,tok;tok,tok' (hex) → float array via Python's float()"""
    rows = []
    for r in s.split(";"):
        rows.append([float(bytes.fromhex(t).decode()) for t in r.split(",")])
    return np.array(rows, dtype=float)


def in_number_token(data, k):
    """offset k cuts strictly inside a number token (previous and next byte both belong to a number)"""
    num = b"0123456789.e+-"
    return 0 < k < len(data) and data[k - 1] in num and data[k] in num


# ----------------------------------------------------------------------------- stage B pieces

def trace_sequential(n, cdir):
    """Real writer then real reader, sequentially, under the tracer. Returns dict for the driver."""
    prior = _prior()
    final = final_path(n)
    cf.clear_dir(cdir)
    obj = writer_obj()
    with cf.Tracer(cdir, final) as tr:
        tr.register_main(0)
        table = obj.precalculate_priors_for_approximation(n)
        tr.unregister_main()
        tr.register_main(1)
        back = prior.ConditionalCoalescentTimes.read_precalc_cache(final, n)
        tr.unregister_main()
    real = cf.dir_state(cdir)
    return dict(n=n, ops=tr.ops, final=final, table=table, back=back, real=real)


def coalesce(lines, maxchunks=3):
    """merge a writer's consecutive appends into at most `maxchunks` (keeps the op shape)"""
    out, run = [], []

    def flush_run():
        if not run:
            return
        w, p = run[0].split()[1], run[0].split()[3]
        datas = [bytes.fromhex(x.split()[4]) for x in run]
        k = max(1, -(-len(datas) // maxchunks))
        for i in range(0, len(datas), k):
            out.append(f"op {w} append {p} {b''.join(datas[i:i + k]).hex()}")
        run.clear()

    for ln in lines:
        if " append " in ln:
            run.append(ln)
        else:
            flush_run()
            out.append(ln)
    flush_run()
    return out


def writer_sizes(ops):
    return [len(o[3]) for o in ops if o[1] == "append"]


def kill_schedule(sizes, k):
    """schedule for one writer (index 0) killed when exactly k bytes have reached its file"""
    sched = [0]            # mkstemp / open
    acc = 0
    for s in sizes:
        if acc + s <= k:
            sched.append(0)
            acc += s
        else:
            sched.append(("partial", 0, k - acc))
            return sched
    sched.append(("kill", 0))     # all bytes delivered, killed before close/rename
    return sched


def later_run_ok(n, fresh):
    """What a later run uses: `ConditionalCoalescentTimes(n).approx_priors`."""
    c = _prior().ConditionalCoalescentTimes(n)
    return same_bits(c.approx_priors, fresh), c.approx_priors


# ----------------------------------------------------------------------------- the run

def run(ctx):
    res = Result()
    import tsdate  # noqa: F401
    cf.quiet()
    rng = ctx.rng(1)
    thorough = ctx.tier == "thorough"
    stats = dict(sizes=[], trunc_offsets=0, trunc_accepted=0, trunc_in_number=0, corruptions=0,
                 sched_cases=0, sched_kills=0, fork_crashes=dict(kill=0, efbig=0), fork_sig=0,
                 inproc_kills=0, leaked_tmp_after_kill=0, tmp_removed_after_efbig=0, strace="not-run",
                 hyp=dict(safe=0, atomic=0, distinct=0, formatok=0, total_traces=0))
    foot = cf.footer_bytes()
    blocks, expect = [], {}
    timing = stats.setdefault("time_s", {})
    tlast = [time.time()]

    def tick(name):
        now = time.time()
        timing[name] = round(timing.get(name, 0) + now - tlast[0], 1)
        tlast[0] = now

    def corr_fail(kind, what, replay):
        res.corr_failures.append(Violation(kind, what, replay, stage="B"))

    with cf.private_cache() as cdir:
        sizes = [2, 3, 6] + ([17, 50] if thorough else []) + [int(rng.integers(4, 12))]
        if ctx.boost > 1:
            sizes += [int(x) for x in rng.integers(2, 40, size=4)]
        sizes = sorted(set(sizes))
        stats["sizes"] = sizes
        traces = {}
        # ---------- B1: trace the real writer and reader, sequentially
        for n in sizes:
            tr = trace_sequential(n, cdir)
            traces[n] = tr
            fresh = fresh_table(n)
            res.evaluations += 1
            final = tr["final"]
            fname = os.path.basename(final)
            content = tr["real"].get(fname)
            # exactness on the implementation (C): written table, read-back table, formula table
            if not same_bits(tr["table"], fresh):
                res.violations.append(Violation("cache-table-differs-from-formula",
                                                f"n={n}: table returned by the writer differs from the formula",
                                                dict(kind="exact", n=n)))
            if n >= 2 and not same_bits(tr["back"], fresh):
                res.violations.append(Violation("cache-roundtrip-inexact",
                                                f"n={n}: table read back from the cache is not bit-identical to the fresh one",
                                                dict(kind="exact", n=n)))
            lines, tmps, looks, pid, unknown = cf.abstract_ops(tr["ops"], final)
            if unknown:
                corr_fail("cachefs-unknown-operation", f"n={n}: operation outside the model's alphabet: {unknown[:3]}",
                          dict(kind="trace", n=n))
            cid = f"seq{n}"
            blocks.append(cf.run_block(cid, lines, tmps, 2, content or b"", None, n))
            expect[cid] = dict(kind="seq", n=n, content=content, real=tr["real"], fname=fname, pid=pid,
                               back=tr["back"], fresh=fresh)
            # enumerate every crash cut of the traced writer in the model
            wl = [ln for ln in lines if ln.split()[1] == "0"]
            blocks.append("\n".join([f"case enum1-{n}", "kind enum1", "final 0", f"footer {foot.hex()}",
                                     f"content {cf.hexs(content or b'')}", "init absent", f"n {n}",
                                     f"tmp 0 {tmps.get(0, 999)}"] + wl + ["end"]) + "\n")
            expect[f"enum1-{n}"] = dict(kind="enum1", n=n)
        tick("trace")
        # ---------- two traced writers (distinct real temp names) → every interleaving in the model
        n2 = sizes[1] if len(sizes) > 1 else sizes[0]
        final = final_path(n2)
        cf.clear_dir(cdir)
        obj = writer_obj()
        with cf.Tracer(cdir, final) as tr2:
            tr2.register_main(0)
            obj.precalculate_priors_for_approximation(n2)
            tr2.unregister_main()
            tr2.register_main(1)
            obj.precalculate_priors_for_approximation(n2)
            tr2.unregister_main()
        content2 = cf.dir_state(cdir).get(os.path.basename(final), b"")
        lines, tmps, _, _, _ = cf.abstract_ops(tr2.ops, final)
        cl = coalesce(lines, 2 if not thorough else 3)
        blocks.append("\n".join(["case enum2", "kind enum2", "final 0", f"footer {foot.hex()}",
                                 f"content {cf.hexs(content2)}", "init absent", f"n {n2}",
                                 f"tmp 0 {tmps.get(0, 998)}", f"tmp 1 {tmps.get(1, 999)}"] + cl + ["end"]) + "\n")
        expect["enum2"] = dict(kind="enum2", n=n2, distinct=tmps.get(0) != tmps.get(1))
        res.evaluations += 1

        tick("enum-prep")
        # ---------- B2: reader correspondence, EVERY byte offset of real cache files
        trunc_sizes = [6] + ([2, 3, 17, 50] if thorough else [3])
        trunc_data = {}
        for n in trunc_sizes:
            if n not in traces:
                traces[n] = trace_sequential(n, cdir)
            data = traces[n]["real"][os.path.basename(traces[n]["final"])]
            trunc_data[n] = data
            blocks.append("\n".join([f"case rd{n}", "kind reader", f"footer {foot.hex()}", f"bytes {data.hex()}",
                                     f"n {n}", "end"]) + "\n")
            expect[f"rd{n}"] = dict(kind="reader", n=n)
            for dn in (-1, 1):
                blocks.append("\n".join([f"case rdn{n}_{dn}", "kind read1", f"footer {foot.hex()}",
                                         f"bytes {data.hex()}", f"n {n + dn}", "end"]) + "\n")
                expect[f"rdn{n}_{dn}"] = dict(kind="read1", n=n + dn, data=data, what=f"full file read with n={n + dn}")
        # corruption menu (exercises shape / finite / footer branches of the validation)
        base = trunc_data[6]
        blines = base.split(b"\n")
        menu = {
            "nan-entry": base.replace(blines[2].split(b" ")[1], b"nan", 1),
            "inf-entry": base.replace(blines[3].split(b" ")[1], b"inf", 1),
            "row-dropped": b"\n".join(blines[:2] + blines[3:]),
            "row-duplicated": b"\n".join(blines[:2] + blines[1:]),
            "three-columns": base.replace(b"\n", b" 1.0e+00\n", 1),
            "one-column-everywhere": b"\n".join([ln.split(b" ")[0] if not ln.startswith(b"#") else ln for ln in blines]),
            "footer-missing": b"\n".join(blines[:-2]) + b"\n",
            "footer-twice": base + foot + b"\n",
            "footer-then-rows": foot + b"\n" + base,
            "footer-only": foot + b"\n",
            "empty": b"",
            "footer-no-newline": base[:-1],
            "garbage-after-footer": base + b"1 2\n",
            "footer-altered": base.replace(b"# end", b"# End"),
            "blank-line-inside": base.replace(b"\n", b"\n\n", 1),
            "comment-line-inside": base.replace(b"\n", b"\n# note\n", 1),
        }
        for name, data in menu.items():
            blocks.append("\n".join([f"case cor-{name}", "kind read1", f"footer {foot.hex()}",
                                     f"bytes {cf.hexs(data)}", "n 6", "end"]) + "\n")
            expect[f"cor-{name}"] = dict(kind="read1", n=6, data=data, what=name)
            stats["corruptions"] += 1

        tick("reader-prep")
        # ---------- B3: real threads under imposed schedules (2 writers + 1 reader), with kills
        n3 = 3
        fresh3 = fresh_table(n3)
        sz = writer_sizes(traces[n3]["ops"]) if n3 in traces else writer_sizes(trace_sequential(n3, cdir)["ops"])
        wops = 1 + len(sz) + 2
        final3 = final_path(n3)
        full3 = traces[n3]["real"][os.path.basename(final3)] if n3 in traces else None
        n_sched = ctx.n(24, 200)
        for si in range(n_sched):
            cf.clear_dir(cdir)
            init = None
            r = rng.random()
            if r < 0.25:
                init = full3
            elif r < 0.45:
                init = full3[: int(rng.integers(0, len(full3)))]
            if init is not None:
                with open(final3, "wb") as f:
                    f.write(init)
            plan = []
            kills = 0
            for w in (0, 1):
                mode = rng.choice(["complete", "kill", "partial"], p=[0.45, 0.25, 0.3])
                if mode == "complete":
                    plan.append([w] * wops)
                elif mode == "kill":
                    j = int(rng.integers(0, wops))
                    plan.append([w] * j + [("kill", w)])
                    kills += 1
                else:
                    j = int(rng.integers(0, len(sz)))
                    plan.append([w] * (1 + j) + [("partial", w, int(rng.integers(0, sz[j] + 1)))])
                    kills += 1
            plan.append([2, 2, 2])
            # random interleaving preserving each list's order
            idx = [0, 0, 0]
            sched = []
            while any(idx[i] < len(plan[i]) for i in range(3)):
                c = [i for i in range(3) if idx[i] < len(plan[i])]
                i = int(rng.choice(c))
                sched.append(plan[i][idx[i]])
                idx[i] += 1
            objs = [writer_obj(), writer_obj()]
            with cf.Tracer(cdir, final3) as trs:
                out = trs.run_threads(
                    [lambda o=objs[0]: o.precalculate_priors_for_approximation(n3),
                     lambda o=objs[1]: o.precalculate_priors_for_approximation(n3),
                     lambda: real_reader(final3, n3)], sched)
            real = cf.dir_state(cdir)
            lines, tmps, looks, pid, unknown = cf.abstract_ops(trs.ops, final3)
            cid = f"sch{si}"
            blocks.append(cf.run_block(cid, lines, tmps, 2, full3, init, n3))
            expect[cid] = dict(kind="sched", n=n3, real=real, fname=os.path.basename(final3), pid=pid,
                               read=out[2], fresh=fresh3, sched=[list(x) if isinstance(x, tuple) else x for x in sched],
                               init=None if init is None else init.hex(), unknown=unknown,
                               errors=[str(o[1]) for o in out[:2] if o and o[1] not in (None, "killed")])
            stats["sched_cases"] += 1
            stats["sched_kills"] += kills
            res.evaluations += 1
            # C: whatever happened, a later run must use exactly the fresh table
            rd = out[2][0] if out[2] else None
            if rd is not None and not same_bits(rd, fresh3):
                res.violations.append(Violation("interleaved-writers-wrong-table",
                                                f"reader returned a table that differs from the fresh one under schedule {sched}",
                                                dict(kind="sched", n=n3, sched=expect[cid]["sched"], init=expect[cid]["init"])))
            ok, _ = later_run_ok(n3, fresh3)
            if not ok:
                res.violations.append(Violation("later-run-wrong-table",
                                                f"after schedule {sched} a later run used a table that differs from the fresh one",
                                                dict(kind="sched", n=n3, sched=expect[cid]["sched"], init=expect[cid]["init"])))
            if kills:
                res.nontrivial.add(common.canon_key(["sched", expect[cid]["sched"], expect[cid]["init"]]))

        tick("threads")
        # ---------- run the model on everything collected so far
        t0 = time.time()
        replies = {}
        for ln in common.lean_driver("CacheFS", "".join(blocks)):
            if ln.strip():
                d = cf.parse_reply(ln)
                replies[d["id"]] = d
        stats["lean_driver_s"] = round(time.time() - t0, 1)
        accepted = {}
        for cid, e in expect.items():
            d = replies.get(cid)
            rp = dict(kind=e["kind"], case=cid, n=e["n"])
            if d is None or d.get("bad"):
                corr_fail("cachefs-driver-rejected", f"{cid}: the model rejected the traced case", rp)
                continue
            if e["kind"] in ("seq", "sched"):
                stats["hyp"]["total_traces"] += 1
                safe_ok = all(x == "1" for x in d["safe"].split(","))
                stats["hyp"]["safe"] += int(safe_ok)
                stats["hyp"]["distinct"] += int(d["distinct"] == "1")
                if e["kind"] == "seq":
                    atom = d["atomic"].split(",")[0] == "1"
                    stats["hyp"]["atomic"] += int(atom)
                    if not atom:
                        corr_fail("cachefs-trace-not-atomic",
                                  f"n={e['n']}: the real writer's operations do not have the shape "
                                  "[createTemp t; append t…; flush t; rename t final] with the file's content", rp)
                if not safe_ok or d["distinct"] != "1":
                    corr_fail("cachefs-trace-violates-discipline",
                              f"{cid}: traced writers fail the hypotheses of safe_protocol_safe (safe={d['safe']}, distinct={d['distinct']})",
                              dict(rp, sched=e.get("sched"), init=e.get("init")))
                # model state vs real directory, byte for byte
                inv = {v: k for k, v in e["pid"].ids.items()}
                real_final = e["real"].get(e["fname"])
                if cf.unhex(d["final"]) != real_final:
                    corr_fail("cachefs-model-state-differs",
                              f"{cid}: cache file content differs between the model and the real directory "
                              f"(model {d['final'][:40]}, real {None if real_final is None else real_final.hex()[:40]})",
                              dict(rp, sched=e.get("sched"), init=e.get("init")))
                if e.get("unknown"):
                    corr_fail("cachefs-unknown-operation", f"{cid}: operation outside the model's alphabet: {e['unknown'][:3]}", rp)
                # reader
                if e["kind"] == "seq":
                    real_rd = e["back"]
                else:
                    real_rd = e["read"][0] if e["read"] and e["read"][1] is None else None
                    if e["read"] and e["read"][1] not in (None,):
                        corr_fail("reader-raised", f"{cid}: the real reader raised {e['read'][1]!r}", rp)
                if d["read"] == "none":
                    same = real_rd is None
                else:
                    same = real_rd is not None and same_bits(rows_to_array(d["read"][5:]), real_rd)
                if not same:
                    corr_fail("reader-model-differs",
                              f"{cid}: reader result differs (model {d['read'][:30]}, real {'None' if real_rd is None else 'table'})",
                              dict(rp, sched=e.get("sched"), init=e.get("init")))
                if d["looks"] != d["explooks"]:
                    corr_fail("reader-looks-differ", f"{cid}: the real reader looked {d['looks']} times, the model expects {d['explooks']}", rp)
            elif e["kind"] == "enum1":
                res.evaluations += int(d["cuts"])
                if d["other"] != "0" or d["readwrong"] != "0":
                    corr_fail("cachefs-crash-cut-exposes-partial",
                              f"n={e['n']}: in the model, crash cut #{d['first']} of the traced writer leaves a partial "
                              f"file under the cache name ({d['other']} of {d['cuts']} cuts; reader fooled in {d['readwrong']})", rp)
            elif e["kind"] == "enum2":
                res.evaluations += int(d["states"])
                if d["other"] != "0" or d["readwrong"] != "0" or not e["distinct"]:
                    corr_fail("cachefs-interleaving-exposes-partial",
                              f"in the model, schedule prefix {d['first']} of two traced writers leaves a partial/interleaved "
                              f"file under the cache name ({d['other']} of {d['states']} states; reader fooled in {d['readwrong']}; "
                              f"temp names distinct: {e['distinct']})", rp)
            elif e["kind"] == "reader":
                stats["hyp"]["formatok"] += int(d["formatok"] == "1")
                if d["formatok"] != "1":
                    corr_fail("cache-file-not-an-encoding",
                              f"n={e['n']}: the real cache file is not `encode rows` in the model's sense (FormatOK fails)", rp)
                if d.get("wrong"):
                    corr_fail("reader-model-accepts-wrong", f"n={e['n']}: model reader accepts a prefix with other rows at {d['wrong']}", rp)
                accepted[e["n"]] = set(int(x) for x in d["accepted"].split(",") if x)
            elif e["kind"] == "read1":
                path = os.path.join(cdir, "probe.txt")
                with open(path, "wb") as f:
                    f.write(e["data"])
                real_rd = real_reader(path, e["n"])
                os.remove(path)
                res.evaluations += 1
                model_none = "rest" in d and d["rest"][0] == "none"
                if model_none != (real_rd is None):
                    corr_fail("reader-model-differs",
                              f"{e['what']}: model {'rejects' if model_none else 'accepts'}, real reader "
                              f"{'rejects' if real_rd is None else 'accepts'}", dict(rp, data=e["data"].hex()))
                elif not model_none and not same_bits(rows_to_array(d["rest"][1]), real_rd):
                    corr_fail("reader-model-differs", f"{e['what']}: accepted tables differ", dict(rp, data=e["data"].hex()))
                if real_rd is not None and e["what"] not in ("footer-no-newline",) and not e["what"].startswith("full file"):
                    # an accepted corrupted file must at least be a table equal to the fresh one
                    if not same_bits(real_rd, fresh_table(e["n"])):
                        res.extra.setdefault("accepted_corruptions", []).append(e["what"])

        tick("model+compare")
        # ---------- B2/C: the real reader on every truncation of real cache files
        for n in trunc_sizes:
            data = trunc_data[n]
            fresh = fresh_table(n)
            acc = accepted.get(n, set())
            path = os.path.join(cdir, f"trunc_{n}.txt")
            for k in range(len(data) + 1):
                with open(path, "wb") as f:
                    f.write(data[:k])
                rd = real_reader(path, n)
                res.evaluations += 1
                stats["trunc_offsets"] += 1
                inside = in_number_token(data, k)
                stats["trunc_in_number"] += int(inside)
                if inside:
                    res.nontrivial.add(common.canon_key(["trunc", n, k]))
                if rd is not None:
                    stats["trunc_accepted"] += 1
                    if not same_bits(rd, fresh):
                        res.violations.append(Violation(
                            "truncated-cache-accepted",
                            f"n={n}: cache file truncated at byte {k} of {len(data)} is accepted by read_precalc_cache and "
                            f"gives a table (shape {rd.shape}) that differs from the exact one",
                            dict(kind="trunc", n=n, k=k, data=data.hex())))
                if (rd is not None) != (k in acc):
                    corr_fail("reader-model-differs",
                              f"n={n}: truncation at byte {k}: model {'accepts' if k in acc else 'rejects'}, "
                              f"real reader {'accepts' if rd is not None else 'rejects'}",
                              dict(kind="trunc", n=n, k=k, data=data.hex()))
            os.remove(path)
        res.exhaustive = True

        tick("truncations")
        # ---------- C: in-process kill of the real writer at EVERY byte offset
        nk = 6
        fresh = fresh_table(nk)
        szk = writer_sizes(traces[nk]["ops"])
        finalk = final_path(nk)
        fullk = trunc_data[nk]
        offsets = list(range(sum(szk) + 1))
        if not thorough:
            offsets = sorted(set(offsets[::3] + [0, 1, len(fullk) - 1, len(fullk)] +
                                 [int(x) for x in rng.integers(0, len(fullk) + 1, size=20)]))
        for k in offsets:
            cf.clear_dir(cdir)
            obj = writer_obj()
            with cf.Tracer(cdir, finalk) as trk:
                trk.run_threads([lambda o=obj: o.precalculate_priors_for_approximation(nk)], kill_schedule(szk, k))
            st = cf.dir_state(cdir)
            stats["inproc_kills"] += 1
            res.evaluations += 1
            check_after_crash(res, stats, nk, k, "inproc-kill", st, os.path.basename(finalk), fullk, fresh, corr_fail)
            if 0 < k < len(fullk):
                res.nontrivial.add(common.canon_key(["kill", nk, k]))

        tick("inproc-kills")
        # ---------- C: real crashes, fork + RLIMIT_FSIZE
        budget = 25.0 if not thorough else 600.0
        offs = list(range(len(fullk) + 2))
        order = [0, 1, len(fullk) // 2, len(fullk) - 1, len(fullk)] + [int(x) for x in rng.permutation(offs)]
        seen = set()
        t0 = time.time()
        for k in order:
            if k in seen:
                continue
            seen.add(k)
            for mode in ("kill", "efbig"):
                cf.clear_dir(cdir)
                st_code = cf.fork_crash(nk, k, mode)
                st = cf.dir_state(cdir)
                stats["fork_crashes"][mode] += 1
                if os.WIFSIGNALED(st_code):
                    stats["fork_sig"] += 1
                res.evaluations += 1
                check_after_crash(res, stats, nk, k, "fork-" + mode, st, os.path.basename(finalk), fullk, fresh, corr_fail)
                if 0 < k < len(fullk):
                    res.nontrivial.add(common.canon_key(["fork", mode, nk, k]))
            if time.time() - t0 > budget and len(seen) >= 6:
                break
        stats["fork_offsets_covered"] = len(seen)
        stats["fork_offsets_total"] = len(offs)

        tick("forks")
        # ---------- C: end to end — prior grid through the cache vs. recomputed
        e2e_prior_grid(ctx, res, stats, cdir, rng)

        tick("e2e")
        # ---------- strace cross-check (thorough tier, or VERIF_C36_STRACE=1)
        if thorough or os.environ.get("VERIF_C36_STRACE") == "1":
            strace_check(res, stats, cdir, corr_fail)

    res.sample(dict(kind="trace", n=sizes[-1], ops=[(o[0], o[1], os.path.basename(str(o[2])) if len(o) > 2 else None)
                                                     for o in traces[sizes[-1]]["ops"]][:12]))
    res.sample(dict(kind="truncation", n=6, bytes=len(trunc_data[6]), accepted_offsets=sorted(accepted.get(6, []))))
    res.sample(dict(kind="schedule", n=n3, example=expect.get("sch0", {}).get("sched")))
    res.rule = ("B: real writer/reader operations traced into the Lean model (state byte-for-byte, hypotheses safeOps / "
                "atomicShape / distinct temp names / FormatOK evaluated on every trace), model enumeration of all crash cuts "
                "and two-writer interleavings of the traced programs, real threads under random schedules with kills, real "
                "reader vs model on EVERY truncation offset and a corruption menu. C: after every crash (kernel SIGXFSZ at k "
                "bytes, EFBIG error path, in-process kill at byte k) and every truncation, a later run must use the exact "
                "table. Non-trivial = truncation strictly inside a number token, crash with 0 < k < file size, or a schedule "
                "with at least one killed writer; distinct by (kind, n, offset / schedule).")
    res.extra = dict(input_distribution=stats,
                     hypothesis_hit_rates={k: f"{v}/{stats['hyp']['total_traces']}" for k, v in stats["hyp"].items()
                                           if k in ("safe", "distinct")})
    return res


def check_after_crash(res, stats, n, k, how, st, fname, full, fresh, corr_fail):
    """After a crash of the writer: B — the cache name must be absent or complete (what the theorem
    says of the atomic protocol); C — a later run must use exactly the fresh table."""
    final = st.get(fname)
    rp = dict(kind="crash", how=how, n=n, k=k)
    if final is not None and final != full:
        corr_fail("cachefs-partial-under-cache-name",
                  f"{how} at byte {k}: the cache name holds {len(final)} of {len(full)} bytes — impossible for the atomic protocol", rp)
    left = [f for f in st if f != fname]
    if left:
        if how == "fork-efbig":
            pass
        stats["leaked_tmp_after_kill"] += int(how != "fork-efbig")
    elif how == "fork-efbig" and k < len(full):
        stats["tmp_removed_after_efbig"] += 1
    rd = real_reader(os.path.join(os.path.dirname(final_path(n)), fname), n)
    if rd is not None and not same_bits(rd, fresh):
        res.violations.append(Violation("crash-leaves-accepted-wrong-table",
                                        f"{how} at byte {k}: the reader accepts the left-over cache file and returns a table that "
                                        "differs from the exact one", rp))
    ok, got = later_run_ok(n, fresh)
    if not ok:
        res.violations.append(Violation("later-run-wrong-table",
                                        f"{how} at byte {k}: a later run used a table that differs from the freshly computed one", rp))


def e2e_prior_grid(ctx, res, stats, cdir, rng):
    """build_prior_grid with approximate priors: cache absent (compute+write), present (read), truncated
    (must recompute) → identical grids."""
    import msprime
    import tsdate
    ts = msprime.sim_ancestry(6, sequence_length=1e3, recombination_rate=1e-5, population_size=100,
                              random_seed=int(rng.integers(1, 2**31 - 1)))
    napp = 8
    fn = final_path(napp)
    grids = []
    cf.clear_dir(cdir)
    for phase in ("absent", "present", "truncated", "truncated2"):
        if phase.startswith("truncated"):
            data = open(fn, "rb").read()
            k = int(rng.integers(1, len(data) - 1))
            with open(fn, "wb") as f:
                f.write(data[:k])
        g = tsdate.build_prior_grid(ts, population_size=100, approximate_priors=True, approx_prior_size=napp,
                                    timepoints=8)
        grids.append((phase, np.array(g.grid_data, copy=True)))
        res.evaluations += 1
    stats["e2e_grids"] = len(grids)
    for phase, g in grids[1:]:
        if g.tobytes() != grids[0][1].tobytes():
            res.violations.append(Violation("prior-grid-differs-through-cache",
                                            f"build_prior_grid(approximate_priors=True) differs between cache absent and cache {phase}",
                                            dict(kind="e2e", phase=phase)))


def strace_check(res, stats, cdir, corr_fail):
    n = 5
    xdg = os.environ["XDG_CACHE_HOME"]
    cf.clear_dir(cdir)
    ops = cf.strace_ops(n, xdg)
    if ops is None:
        stats["strace"] = "unavailable"
        return
    fn = final_path(n)
    names = [o[0] for o in ops]
    stats["strace"] = dict(syscalls=len(ops), kinds=sorted(set(names)))
    # writer: openat(tmp, …O_CREAT|O_EXCL…), write(tmp)+, close(tmp), rename(tmp, final); nothing else writes
    opens_w = [o for o in ops if o[0] == "open" and any(f in o[2] for f in ("O_WRONLY", "O_RDWR"))]
    renames = [o for o in ops if o[0] == "rename"]
    writes = [o for o in ops if o[0] == "write"]
    ok = (len(opens_w) == 1 and "O_EXCL" in opens_w[0][2] and "O_CREAT" in opens_w[0][2]
          and opens_w[0][1] != fn and len(renames) == 1 and renames[0][1] == opens_w[0][1]
          and os.path.realpath(renames[0][2]) == os.path.realpath(fn)
          and all(w[1] == opens_w[0][1] for w in writes) and len(writes) >= 1
          and sum(w[2] for w in writes) == os.path.getsize(fn))
    if ok:
        # order: open < writes < close < rename
        i_open = ops.index(opens_w[0])
        i_ren = ops.index(renames[0])
        i_w = [i for i, o in enumerate(ops) if o[0] == "write"]
        i_close = [i for i, o in enumerate(ops) if o[0] == "close" and o[1] == opens_w[0][1]]
        ok = bool(i_close) and i_open < min(i_w) and max(i_w) < i_close[0] < i_ren
    stats["strace"]["atomic_shape"] = bool(ok)
    stats["strace"]["fsync"] = any(o[0] in ("fsync", "fdatasync") for o in ops)
    res.evaluations += 1
    if not ok:
        corr_fail("cachefs-strace-not-atomic",
                  "system calls of the real writer (strace) do not have the shape openat(tmp,O_CREAT|O_EXCL) write* close rename(tmp,final): "
                  + str([(o[0],) + tuple(os.path.basename(str(x)) for x in o[1:]) for o in ops if o[0] != "close"][:8]),
                  dict(kind="strace", n=n))


def search(ctx):
    """Deeper implementation-side search when A or B broke: more sizes, all offsets."""
    res = Result()
    cf.quiet()
    rng = ctx.rng(7)
    with cf.private_cache("-s") as cdir:
        for n in [2, 3, 4, 5, 7, 9, 12] + [int(x) for x in rng.integers(13, 60, size=3)]:
            tr = trace_sequential(n, cdir)
            data = tr["real"].get(os.path.basename(tr["final"]))
            if data is None:
                continue
            fresh = fresh_table(n)
            path = os.path.join(cdir, "t.txt")
            for k in range(len(data) + 1):
                with open(path, "wb") as f:
                    f.write(data[:k])
                rd = real_reader(path, n)
                res.evaluations += 1
                if rd is not None and not same_bits(rd, fresh):
                    res.violations.append(Violation(
                        "truncated-cache-accepted",
                        f"n={n}: cache file truncated at byte {k} of {len(data)} is accepted and gives a different table",
                        dict(kind="trunc", n=n, k=k, data=data.hex())))
            os.remove(path)
            # crash the real writer at every offset (in-process), then look at what a later run uses
            sz = writer_sizes(tr["ops"])
            stats = dict(leaked_tmp_after_kill=0, tmp_removed_after_efbig=0)
            for k in range(0, len(data) + 1):
                cf.clear_dir(cdir)
                obj = writer_obj()
                with cf.Tracer(cdir, tr["final"]) as trk:
                    trk.run_threads([lambda o=obj: o.precalculate_priors_for_approximation(n)], kill_schedule(sz, k))
                st = cf.dir_state(cdir)
                res.evaluations += 1
                check_after_crash(res, stats, n, k, "inproc-kill", st, os.path.basename(tr["final"]), data, fresh,
                                  lambda *a: None)
    return res


def replay(ctx, payload):
    d = payload.get("input") or payload.get("correspondence_input")
    cf.quiet()
    import tsdate  # noqa: F401
    with cf.private_cache("-r") as cdir:
        n = d.get("n", 6)
        fresh = fresh_table(n)
        if d["kind"] == "trunc":
            data = bytes.fromhex(d["data"])[: d["k"]]
            path = os.path.join(cdir, "t.txt")
            with open(path, "wb") as f:
                f.write(data)
            rd = real_reader(path, n)
            print(f"cache file truncated at byte {d['k']}: last bytes {data[-30:]!r}")
            print("implementation: read_precalc_cache ->", "None (recompute)" if rd is None else f"table shape {rd.shape}")
            out = common.lean_driver("CacheFS", "\n".join(["case r", "kind read1", f"footer {cf.footer_bytes().hex()}",
                                                           f"bytes {cf.hexs(data)}", f"n {n}", "end"]) + "\n")
            print("model         :", out[0] if out else "?")
            ok = rd is None or same_bits(rd, fresh)
            print("exact table or recompute:", ok)
            return ok
        if d["kind"] in ("crash",):
            tr = trace_sequential(n, cdir)
            sz = writer_sizes(tr["ops"])
            data = tr["real"].get(os.path.basename(tr["final"])) or b""
            cf.clear_dir(cdir)
            if d["how"].startswith("fork"):
                cf.fork_crash(n, d["k"], d["how"].split("-")[1])
            else:
                obj = writer_obj()
                with cf.Tracer(cdir, tr["final"]) as trk:
                    trk.run_threads([lambda: obj.precalculate_priors_for_approximation(n)], kill_schedule(sz, d["k"]))
            st = cf.dir_state(cdir)
            print("directory after the crash:", {k: len(v) for k, v in st.items()}, "complete size", len(data))
            ok, _ = later_run_ok(n, fresh)
            print("later run uses the exact table:", ok)
            return ok
        if d["kind"] == "sched":
            final = final_path(n)
            cf.clear_dir(cdir)
            if d.get("init") is not None:
                with open(final, "wb") as f:
                    f.write(bytes.fromhex(d["init"]))
            sched = [tuple(x) if isinstance(x, list) else x for x in d["sched"]]
            objs = [writer_obj(), writer_obj()]
            with cf.Tracer(cdir, final) as trs:
                out = trs.run_threads([lambda: objs[0].precalculate_priors_for_approximation(n),
                                       lambda: objs[1].precalculate_priors_for_approximation(n),
                                       lambda: real_reader(final, n)], sched)
            rd = out[2][0] if out[2] else None
            print("schedule:", sched)
            print("operations:", [(o[0], o[1]) for o in trs.ops])
            print("reader ->", "None" if rd is None else ("exact table" if same_bits(rd, fresh) else "DIFFERENT table"))
            ok, _ = later_run_ok(n, fresh)
            print("later run uses the exact table:", ok)
            return ok and (rd is None or same_bits(rd, fresh))
        tr = trace_sequential(n, cdir)
        print("operations of the real writer/reader:", [(o[0], o[1], os.path.basename(str(o[2]))) for o in tr["ops"]])
        ok = tr["back"] is None or same_bits(tr["back"], fresh)
        print("read-back table exact:", ok)
        return ok
