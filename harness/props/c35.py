"""
C35 — invalid inputs are rejected cleanly and valid ones never crash.

A  theorems in Props/C35 over the guard-chain model (Model/Validate.lean): a guard that fires decides
   the outcome and it is an exception (guard_fires_rejected); every guarded invalid class of the
   statement is rejected whatever the other parameters are (invalid_rejected); rejections are
   ValueError/NotImplementedError unless a keyword is foreign to the method (rejection_clean);
   return_shape; kernel preconditions under the callers' guarantees; the full statement
   (C35_invalid_statement_holds, since /repo a8b199f added the rate guard of the discrete methods;
   the pre-fix chain is kept as the counter-example prefix_discrete_nonpositive_rate_unguarded).
B  the model's `outcome` against the real `tsdate.date` over the deviation lattice: every single and
   pairwise deviation from a valid call (parameters x input facts), random deeper combinations;
   exception type and guard site compared.
C  oracle: pathological but valid inputs x methods; any exception that is not a documented
   ValueError/NotImplementedError is classified by (type, site, assertion text, class of input).
   F5 (`AssertionError: Use fewer rescaling intervals`, repaired by fa21a50) and "non-positive rate
   accepted by the discrete methods" (repaired by a8b199f) are unlisted again: a regression is a
   VIOLATION.  Known: extreme rates (>=1e200 / <=1e-200) and max_shape=1+1e-7 with variational_gamma.
"""

import itertools
import traceback

import numpy as np

from .. import common, dating, gen
from .. import validate_corr as vc
from ..common import Result, Violation

META = dict(
    level='Lean theorems over a model of the validation guard chain of date()/variational_gamma/inside_outside/maximization/EstimationMethod.__init__/run (19 abstract parameter classes x 4 input facts, all combinations): a firing guard always yields an exception; each guarded invalid class of the statement is rejected regardless of the other parameters; rejections are ValueError/NotImplementedError unless a keyword is foreign to the method; the result tuple has the documented shape; the values reaching the kernels satisfy the asserts of those kernels; the full statement over the classes of the model holds (the chain before /repo a8b199f, which lacked the rate guard of the discrete methods, is kept as a proved counter-example). Model tied to the real code on all single and pairwise deviations from a valid call (exception type and site). Partial: "valid inputs never crash" is a whole-program statement and is only searched (pathological valid inputs x methods), not proved.',
    note='Lean kernel + {propext, Classical.choice, Quot.sound}; correspondence exhaustive over single and pairwise deviations, sampled beyond; concrete representatives per abstract class; exception sites matched by message text',
    technique='first-firing-guard model + membership lemmas; lattice correspondence; exception-classifying search',
    ref='§3 C35',
)
LEAN_PROPS = ["TsdateVerif.Props.C35"]
LEAN_BUILD = ["TsdateVerif.Model.Proto", "TsdateVerif.Model.Validate"]
ASSUMPTIONS = [
    "abstract parameter classes are represented by a few concrete values each (listed in harness/validate_corr.py)",
    "TypeError raised by Python's call protocol for a keyword foreign to the method is counted as a clean rejection",
    "'valid inputs never crash' is searched, not proved",
]

DOCUMENTED = ("ValueError", "NotImplementedError")


def _num(v):
    try:
        return float(v)
    except (TypeError, ValueError):
        return None


def classify_internal(name, msg, where, kw=None):
    """kind for an exception that is not a documented rejection: (mechanism, class of input)"""
    kw = kw or {}
    rate = _num(kw.get("mutation_rate"))
    ms = _num(kw.get("max_shape"))
    if name == "AssertionError" and "Use fewer rescaling intervals" in msg:
        return "rescaling-intervals-assertion"          # F5, repaired by /repo fa21a50: unlisted again
    if name == "AssertionError" and where == "variational.py:posterior_damping" and rate is not None and rate >= 1e150:
        return "huge-rate-damping-assertion"
    if name == "ZeroDivisionError" and where.startswith("variational.py") and rate is not None and 0 < rate <= 1e-150:
        return "tiny-rate-zerodivision"
    if name == "LibraryError" and "mutation's time must be" in msg and ms is not None and 1 < ms < 1.001:
        return "max-shape-near-1-library-error"
    text = msg.strip().split("\n")[0][:40].strip().replace(" ", "-") if msg.strip() else "no-message"
    return f"internal-{name}-{where}-{text}"


def run_cases(ctx, res, cases, inputs, stats, rng):
    """cases: list of (method, devs). Runs model and real code, compares."""
    priors_cache = {}
    blocks, todo = [], []
    for ci, (method, devs) in enumerate(cases):
        p, i = vc.apply_devs(method, devs)
        key = (i["nomut"], i["multi"], i["unary"], i["contemp"])
        if key not in inputs:
            stats["no_input_for"] = stats.get("no_input_for", 0) + 1
            continue
        ts, info = inputs[key]
        conc = vc.concretize(rng, p, i, ts, info, priors_cache)
        if conc is None:
            stats["no_representative"] = stats.get("no_representative", 0) + 1
            continue
        blocks.append(vc.encode(f"c{ci}", p, i))
        todo.append((f"c{ci}", method, devs, p, i, key, conc))
    model = {}
    for ln in common.lean_driver("Validate", "".join(blocks)):
        parts = ln.split()
        if parts:
            model[parts[0]] = parts[1:]
    for cid, method, devs, p, i, key, (mname, kw) in todo:
        ts, info = inputs[key]
        real, detail = vc.call_date(ts, mname, kw)
        res.evaluations += 1
        m = model.get(cid)
        replay = dict(kind="lattice", params=p, input=i, method=mname, kw=vc.jsonable_kw(kw), ts=gen.ts_to_jsonable(ts))
        if not m or m[0] == "bad-op":
            res.corr_failures.append(Violation("validate-driver-rejected", f"model rejected case {p} {i}", replay, stage="B"))
            continue
        mo = m[0]
        guarded = m[1] == "guarded=1"
        stats["model_outcomes"][mo.split(":")[0]] = stats["model_outcomes"].get(mo.split(":")[0], 0) + 1
        stats["guarded"] += int(guarded)
        if devs:
            res.nontrivial.add(common.canon_key([p, i]))
            if len(devs) == 2 and len(res.samples) < 3:
                res.sample(dict(kind="lattice", method=mname, deviations=[list(d) for d in devs],
                                kw=vc.jsonable_kw(kw), input=i, model=mo, real=real))
        rname = real.split(":")[0]
        # anything that is not a documented rejection / a TypeError for a foreign keyword / a result is internal
        # (a TypeError is clean only when it is Python's own "unexpected keyword argument")
        if rname not in DOCUMENTED + ("ok", "TypeError") or real == "TypeError:?":
            kind = classify_internal(rname, detail.get("msg", ""), detail.get("where", "?"), kw)
            res.violations.append(Violation(kind, f"date(method={mname}, {vc.jsonable_kw(kw)}) raised {rname}: "
                                                  f"{detail.get('msg', '')[:100]} at {detail.get('where')}", replay))
            stats["internal"][kind] = stats["internal"].get(kind, 0) + 1
            continue
        # expected real outcome
        if mo.startswith("ok:"):
            same = real == mo
        elif mo == "unvalidated":
            same = real.startswith("ok:") or real == "ValueError:danglingNodes"
            stats["unvalidated"][real] = stats["unvalidated"].get(real, 0) + 1
            if real.startswith("ok:") and p["rate"] == "bad":
                res.violations.append(Violation(
                    "discrete-nonpositive-rate-accepted",
                    f"{mname} accepted mutation_rate={kw.get('mutation_rate')!r} and returned a dated tree sequence", replay))
            elif real.startswith("ok:") and p["eps"] == "bad":
                res.violations.append(Violation(
                    "discrete-negative-eps-accepted",
                    f"{mname} accepted eps={kw.get('eps')!r} and returned a dated tree sequence", replay))
        else:
            t, s = mo.split(":")
            same = real == f"{t}:{vc.model_site(s)}"
        if not same:
            res.corr_failures.append(Violation(
                "validate-model-differs",
                f"{mname} {vc.jsonable_kw(kw)} on input {i}: model {mo}, real {real} ({detail.get('msg', '')[:80]})",
                replay, stage="B"))
        # the theorem's conclusion on the real code
        if guarded and real.startswith("ok:"):
            res.violations.append(Violation("invalid-parameter-accepted",
                                            f"{mname} accepted an invalid parameter combination {vc.jsonable_kw(kw)}", replay))
    return model


def pathological_inputs(rng, n):
    """valid but awkward tree sequences (description, ts, info)"""
    import msprime
    import tskit
    out = []
    while len(out) < n:
        r = rng.random()
        if r < 0.15:
            ts, info = gen.sim_ts(rng, n=2, trees=int(rng.choice([1, 2, 4])), muts_per_edge=float(rng.choice([0.2, 1, 5])))
            what = "single-sample-pair"
        elif r < 0.3:
            ts, info = gen.gen_ts(rng, gaps=1.0, muts_per_edge=float(rng.choice([0.3, 2])))
            what = "deleted-intervals"
        elif r < 0.45:
            ts, info = gen.gen_ts(rng, rootmuts=1.0, muts_per_edge=float(rng.choice([0.1, 1])))
            what = "mutations-above-roots"
        elif r < 0.6:
            ts, info = gen.gen_ts(rng, muts_per_edge=float(rng.choice([0.02, 0.05, 0.1])), trees=int(rng.choice([1, 5, 20])))
            what = "very-sparse-mutations"
        elif r < 0.7:
            ts, info = gen.gen_ts(rng, polytomy=1.0)
            what = "polytomies"
        elif r < 0.8:
            ts, info = gen.gen_ts(rng, muts_per_edge=float(rng.choice([20, 60])), n=int(rng.integers(2, 5)))
            what = "dense-mutations"
        elif r < 0.9:
            # many roots: cut the tree sequence below the top (decapitate)
            ts, info = gen.sim_ts(rng, n=int(rng.integers(4, 8)))
            tcut = float(np.quantile(ts.nodes_time[ts.nodes_time > 0], 0.5)) if ts.num_nodes > ts.num_samples else 1.0
            try:
                ts = ts.decapitate(tcut)
            except Exception:  # noqa: BLE001
                pass
            info.update(trees=ts.num_trees, muts=ts.num_mutations)
            what = "many-roots-decapitated"
        else:
            ts, info = gen.gen_ts(rng, historical=1.0)
            what = "historical-samples"
        if ts.num_edges == 0:
            continue
        out.append((what, ts, info))
    return out


def oracle(ctx, res, stats, rng, n):
    for what, ts, info in pathological_inputs(rng, n):
        for method in ("variational_gamma", "inside_outside", "maximization"):
            kw = {}
            scale = float(rng.choice([1, 1, 1e-6, 1e6, 1e-12, 1e9]))
            kw["mutation_rate"] = info["mu"] * scale
            if method != "variational_gamma":
                kw["population_size"] = info["Ne"] / scale
                if rng.random() < 0.3:
                    kw["probability_space"] = str(rng.choice(["linear", "logarithmic"]))
            real, detail = vc.call_date(ts, method, kw)
            res.evaluations += 1
            name = real.split(":")[0]
            stats["oracle"][what] = stats["oracle"].get(what, 0) + 1
            stats["oracle_outcomes"][real] = stats["oracle_outcomes"].get(real, 0) + 1
            res.nontrivial.add(common.canon_key(["oracle", what, method, info.get("seed"), scale]))
            if name in DOCUMENTED or name == "ok":
                continue
            kind = classify_internal(name, detail.get("msg", ""), detail.get("where", "?"), kw)
            stats["internal"][kind] = stats["internal"].get(kind, 0) + 1
            res.violations.append(Violation(
                kind, f"{method}(mutation_rate={kw['mutation_rate']:.3g}) on a {what} input "
                      f"({ts.num_samples} samples, {ts.num_trees} trees, {ts.num_mutations} mutations) raised {name}: "
                      f"{detail.get('msg', '')[:80]} at {detail.get('where')}",
                dict(kind="oracle", what=what, method=method, kw=vc.jsonable_kw(kw), ts=gen.ts_to_jsonable(ts))))


def run(ctx):
    res = Result()
    import tsdate  # noqa: F401
    dating.quiet()
    rng = ctx.rng(1)
    stats = dict(model_outcomes={}, guarded=0, unvalidated={}, internal={}, oracle={}, oracle_outcomes={},
                 singles=0, pairs=0, deeper=0)
    vc.reset_cycle()
    inputs = vc.make_inputs(rng)
    stats["input_variants"] = len(inputs)
    cases = []
    for method in ("vg", "io", "mx"):
        devs = vc.deviations(method)
        cases.append((method, []))
        for d in devs:
            cases.append((method, [d]))
            stats["singles"] += 1
        pairs = [(a, b) for a, b in itertools.combinations(devs, 2) if a[0] != b[0]]
        if ctx.tier == "quick" and ctx.boost == 1:
            # every pair of two *rejecting* deviations (these pin down the order of the guards), a sample of the rest
            def rejecting(d):
                return d[1] in ("bad", "dictBad", "dictKeys") or d[0] in ("rec", "rp", "method") or \
                    (d[0] in ("nomut", "unary", "contemp")) or (d == ("rate", "absent")) or (d[0] == "pop")
            hard = [pr for pr in pairs if rejecting(pr[0]) and rejecting(pr[1])]
            rest = [pr for pr in pairs if not (rejecting(pr[0]) and rejecting(pr[1]))]
            idx = rng.permutation(len(rest))[: ctx.n(60, 0)]
            pairs = hard + [rest[k] for k in idx]
        for a, b in pairs:
            cases.append((method, [a, b]))
            stats["pairs"] += 1
        for _ in range(ctx.n(40, 300)):
            k = int(rng.integers(3, 7))
            idx = rng.permutation(len(devs))[:k]
            chosen, seen = [], set()
            for j in idx:
                if devs[j][0] not in seen:
                    chosen.append(devs[j])
                    seen.add(devs[j][0])
            cases.append((method, chosen))
            stats["deeper"] += 1
    run_cases(ctx, res, cases, inputs, stats, rng)
    res.exhaustive = ctx.tier == "thorough"
    oracle(ctx, res, stats, ctx.rng(2), ctx.n(14, 120))
    targeted(ctx, res, stats)
    f5_regression_probe(ctx, res, stats, ctx.n(30, 150))
    res.sample(dict(kind="oracle", outcomes=stats["oracle_outcomes"]))
    res.sample(dict(kind="targeted", outcomes=stats.get("targeted")))
    res.rule = ("B: every single deviation and (thorough: every; quick: a random sample of) pairwise deviations from a valid "
                "call, for each of the three methods, over 19 parameter classes and 4 input facts, plus random 3-6-fold "
                "deviations; model outcome (exception type + guard site, or result shape) vs the real date(). "
                "C: pathological valid inputs x 3 methods x rate scales 1e-12..1e9; every exception that is not "
                "ValueError/NotImplementedError is classified by (type, innermost tsdate frame, message). "
                "Non-trivial = at least one deviation from the all-valid call, or an oracle run; distinct by canonical hash.")
    res.extra = dict(input_distribution=stats,
                     hypothesis_hit_rates=dict(invalidGuarded=f"{stats['guarded']}/{res.evaluations}"))
    return res


def targeted(ctx, res, stats):
    """Concrete probes of the findings the theorems / earlier runs point at (small and deterministic):
    repaired ones must stay repaired (else an unlisted kind → VIOLATION), open ones are classified."""
    import msprime
    ts0 = msprime.sim_ancestry(4, sequence_length=1e4, recombination_rate=1e-5, population_size=1e3, random_seed=3)
    ts1 = msprime.sim_mutations(ts0, rate=1e-5, random_seed=3)
    tgt = stats.setdefault("targeted", {})
    # (a) repaired by a8b199f: non-positive rates with the discrete methods
    for method in ("inside_outside", "maximization"):
        for ts, rate in ((ts0, 0), (ts0, 0.0), (ts1, -1e-8), (ts1, float("nan"))):
            kw = dict(mutation_rate=rate, population_size=1e3)
            real, detail = vc.call_date(ts, method, kw)
            res.evaluations += 1
            tgt[f"{method} mutation_rate={rate!r} muts={ts.num_mutations}"] = real
            rp = dict(kind="targeted", method=method, kw=vc.jsonable_kw(kw), ts=gen.ts_to_jsonable(ts))
            if real.startswith("ok:"):
                res.violations.append(Violation(
                    "discrete-nonpositive-rate-accepted",
                    f"{method}(mutation_rate={rate!r}) returned a dated tree sequence instead of raising ValueError", rp))
            elif real != "ValueError:rateNotPositive":
                res.corr_failures.append(Violation(
                    "validate-model-differs",
                    f"{method}(mutation_rate={rate!r}): model ValueError:rateNotPositive, real {real}", rp, stage="B"))
    # (b) extreme but valid parameter values of variational_gamma
    probes = [dict(mutation_rate=1e200), dict(mutation_rate=1e300, rescaling_intervals=0), dict(mutation_rate=float("inf")),
              dict(mutation_rate=1e-200), dict(mutation_rate=1e-300, rescaling_intervals=0),
              dict(mutation_rate=1e100), dict(mutation_rate=1e-100),
              dict(mutation_rate=1e-5, max_shape=1.0000001, rescaling_intervals=0),
              dict(mutation_rate=1e-5, max_shape=1.0000001), dict(mutation_rate=1e-5, max_shape=1.01, rescaling_intervals=0)]
    for kw in probes:
        real, detail = vc.call_date(ts1, "variational_gamma", kw)
        res.evaluations += 1
        tgt["variational_gamma " + json_kw(kw)] = real
        res.nontrivial.add(common.canon_key(["targeted", json_kw(kw)]))
        name = real.split(":")[0]
        if name in DOCUMENTED or name == "ok":
            continue
        kind = classify_internal(name, detail.get("msg", ""), detail.get("where", "?"), kw)
        stats["internal"][kind] = stats["internal"].get(kind, 0) + 1
        res.violations.append(Violation(
            kind, f"variational_gamma({json_kw(kw)}) raised {name}: {detail.get('msg', '')[:80]!r} at {detail.get('where')}",
            dict(kind="targeted", method="variational_gamma", kw=vc.jsonable_kw(kw), ts=gen.ts_to_jsonable(ts1))))


def f5_regression_probe(ctx, res, stats, n):
    """Sparse-mutation inputs from a fixed stream (20 % of them hit F5 before /repo fa21a50) dated with
    the default options of variational_gamma: `AssertionError: Use fewer rescaling intervals` must not
    come back."""
    rng = np.random.default_rng(11)
    out = stats.setdefault("f5_probe", {})
    for k in range(n):
        ts, info = gen.gen_ts(rng, muts_per_edge=float(rng.choice([0.05, 0.2, 1, 3])), trees=int(rng.choice([1, 3, 10])),
                              n=int(rng.integers(2, 8)))
        if ts.num_mutations == 0:
            continue
        kw = dict(mutation_rate=info["mu"])
        real, detail = vc.call_date(ts, "variational_gamma", kw)
        res.evaluations += 1
        out[real] = out.get(real, 0) + 1
        res.nontrivial.add(common.canon_key(["f5probe", k]))
        name = real.split(":")[0]
        if name in DOCUMENTED or name == "ok":
            continue
        kind = classify_internal(name, detail.get("msg", ""), detail.get("where", "?"), kw)
        stats["internal"][kind] = stats["internal"].get(kind, 0) + 1
        res.violations.append(Violation(
            kind, f"variational_gamma with default options on a sparse-mutation input ({ts.num_samples} samples, "
                  f"{ts.num_trees} trees, {ts.num_mutations} mutations) raised {name}: {detail.get('msg', '')[:80]!r}",
            dict(kind="oracle", what="f5-probe", method="variational_gamma", kw=vc.jsonable_kw(kw), ts=gen.ts_to_jsonable(ts))))


def json_kw(kw):
    return ", ".join(f"{k}={v!r}" for k, v in kw.items())


def search(ctx):
    res = Result()
    stats = dict(internal={}, oracle={}, oracle_outcomes={})
    dating.quiet()
    oracle(ctx, res, stats, ctx.rng(5), ctx.n(6, 20))
    return res


def replay(ctx, payload):
    d = payload.get("input") or payload.get("correspondence_input")
    dating.quiet()
    ts = gen.ts_from_jsonable(d["ts"])
    kw = {}
    for k, v in d["kw"].items():
        if isinstance(v, str) and v.startswith("<"):
            print(f"(parameter {k} was an object {v}; replay uses the default representative)")
            if k == "population_size":
                import tsdate
                kw[k] = tsdate.demography.PopulationSizeHistory(1000.0)
            elif k == "priors":
                import tsdate
                kw[k] = tsdate.build_prior_grid(ts, population_size=1000.0, allow_unary=True)
            continue
        try:
            kw[k] = float(v) if isinstance(v, str) and v not in ("linear", "logarithmic", "foo", "log", "a") else v
        except ValueError:
            kw[k] = v
    real, detail = vc.call_date(ts, d["method"], kw)
    print("implementation:", real, detail.get("msg", "")[:160], detail.get("where", ""))
    if d.get("kind") == "lattice":
        out = common.lean_driver("Validate", vc.encode("r", d["params"], d["input"]))
        print("model         :", out[0] if out else "?")
    name = real.split(":")[0]
    return name in DOCUMENTED + ("ok",) or (name == "TypeError" and real != "TypeError:?")
