"""
C30 — unary-node detection is exact.

A  theorems in Props/C30 (sweep detector = "some unmasked node has exactly one child somewhere", for every
   mask; tree-iterator detector = the same without mask; the two agree; masking only removes rejections).
   Wrapper level: `contains_unary_nodes(ts, skip_samples=True)` = some node with the sample bit (bit 0 of flags)
   clear is unary somewhere, whatever the other flag bits (`wrapper_spec`, `wrapper_ignores_other_bits`).
B  Lean models (Float positions) vs the real `_contains_unary_nodes` kernel (tskit's indexes and
   tie-shuffled valid indexes; sample mask, empty mask, random masks), vs `contains_unary_nodes(ts,
   skip_samples)` (wrapper model: flags column -> mask -> sweep) and vs `prior.has_locally_unary_nodes(ts)`.
C  oracle: naive scan of every local tree (num_children_array over all nodes) against both detectors,
   and against what `date()` does with allow_unary=False for the three methods.
"""

import numpy as np

from .. import common, dating, gen, sweep_corr as sc
from ..common import Result, Violation

META = dict(
    level='Lean theorems, for all valid edge tables/indexes and all masks: the two-pointer sweep of `_contains_unary_nodes` terminates and returns True iff at some position an unmasked node has exactly one child; `has_locally_unary_nodes` (under tskit iterator contract) is True iff some node has exactly one child somewhere; the detectors agree without mask; masked rejection implies unmasked rejection; the wrapper `contains_unary_nodes(ts, skip_samples=True)` exempts exactly the nodes whose flags have bit 0 set, whatever the other flag bits. Models tied to the numba kernel / Python detector by exact correspondence on serialised tskit tables; date() rejection behaviour checked by oracle. Full for the detectors; the wiring date() -> detector is by oracle only.',
    note='Lean kernel + {propext, Classical.choice, Quot.sound}; sampled exact correspondence; tskit trees()/edge_diffs()/indexes by contract (index sortedness checked per input)',
    technique='loop-invariant rule for the shared insertion/removal sweep + exact model/implementation correspondence',
    ref='§3 C30',
)
LEAN_PROPS = ["TsdateVerif.Props.C30"]
LEAN_BUILD = ["TsdateVerif.Model.Proto", "TsdateVerif.Model.Unary", "TsdateVerif.Model.CountMut"]
ASSUMPTIONS = [
    "tskit's tree iterator, edge_diffs and num_children_array are taken by contract (model of has_locally_unary_nodes)",
    "tskit's insertion/removal indexes are checked per input (validB), not assumed",
    "set iteration order in the numba kernel is irrelevant (the test is an `any`)",
]

UNARY_MSG = "unary"


def sample_bit(ts):
    """NODE_IS_SAMPLE is bit 0 of the flags word; no other bit makes a node a sample."""
    return (ts.nodes_flags.astype(np.int64) & 1).astype(bool)


def masks_for(rng, ts):
    n = ts.num_nodes
    smask = sample_bit(ts)
    out = [("samples", smask), ("none", np.zeros(n, dtype=bool))]
    m, mode = sc.random_mask(rng, ts)
    out.append(("random-" + mode, m))
    return out


def kernel_cases(ctx, n_inputs, stream, res, stats):
    """B + C on the detectors."""
    from tsdate.prior import has_locally_unary_nodes
    from tsdate.util import contains_unary_nodes
    rng = ctx.rng(stream)
    items, text = [], []
    inputs = []
    for _ in range(n_inputs):
        r = rng.random()
        if r < 0.35:
            ts, info = sc.gen_single_event(rng)
        elif r < 0.45:
            ts, info = sc.gen_full_arg(rng)
        else:
            ts, info = sc.gen_input(rng, unary_bias=0.45)
        if ts.num_edges == 0:
            continue
        if rng.random() < 0.5:
            ts, fmode = sc.add_flag_bits(ts, rng)
            info["fired"] = list(info["fired"]) + [f"flag_bits_{fmode}"]
        inputs.append(ts)
        for f in info["fired"]:
            stats["fired"][f] = stats["fired"].get(f, 0) + 1
        tb0 = sc.tables_of(ts)
        for mname, mask in masks_for(rng, ts):
            tb = sc.shuffle_ties(rng, tb0) if rng.random() < 0.3 else tb0
            items.append((ts, tb, mname, mask, tb is not tb0))
            text.append(sc.encode_unary(len(items) - 1, tb, mask))
    # the wrapper util.contains_unary_nodes(ts, skip_samples): flags column -> Boolean
    wrap = []
    for ts in inputs:
        tb = sc.tables_of(ts)
        for skip in (True, False):
            wrap.append((ts, tb, skip))
            text.append(sc.encode_unary_wrapper(len(items) + len(wrap) - 1, tb, skip))
    model = sc.run_model("".join(text))
    for j, (ts, tb, skip) in enumerate(wrap):
        res.evaluations += 1
        m = model.get(len(items) + j)
        impl = bool(contains_unary_nodes(ts, skip_samples=skip))
        unary_nodes = sc.naive_unary_nodes(ts)
        sb = sample_bit(ts)
        naive = bool(unary_nodes - (set(int(u) for u in np.where(sb)[0]) if skip else set()))
        other_bits = bool(np.any(ts.nodes_flags.astype(np.int64) & ~1))
        replay = dict(kind="unaryw", ts=gen.ts_to_jsonable(ts), skip=bool(skip))
        stats["wrapper"][f"skip={skip}:{impl}"] = stats["wrapper"].get(f"skip={skip}:{impl}", 0) + 1
        if other_bits:
            stats["wrapper_other_flag_bits"] += 1
            flagged_unary = [u for u in unary_nodes if not sb[u] and (int(ts.nodes_flags[u]) & ~1)]
            if flagged_unary and len(flagged_unary) == len([u for u in unary_nodes if not sb[u]]):
                stats["wrapper_all_unary_nonsamples_flagged"] += 1
        if m is None:
            res.corr_failures.append(Violation("unary-wrapper-model-bad-op", "Lean wrapper model rejected a tskit input", replay, "B"))
        elif m["contains"] != impl:
            res.corr_failures.append(Violation(
                "unary-wrapper-model-differs",
                f"contains_unary_nodes(ts, skip_samples={skip})={impl} but the Lean wrapper model (mask = sample bit of "
                f"flags)={m['contains']} (other flag bits present: {other_bits})", replay, "B"))
        if impl != naive:
            kind = "wrapper-misses-unary-nonsample" if naive else "wrapper-false-alarm"
            if naive and other_bits:
                kind = "wrapper-exempts-node-with-other-flag-bits"
            res.violations.append(Violation(kind, f"contains_unary_nodes(ts, skip_samples={skip})={impl}, naive scan with the "
                                            f"sample bit={naive}; unary nodes {sorted(unary_nodes)[:6]} with flags "
                                            f"{[int(ts.nodes_flags[u]) for u in sorted(unary_nodes)[:6]]}", replay))
        if other_bits and ts.num_trees > 1:
            res.nontrivial.add(common.canon_key([replay["ts"]["edges"], replay["ts"]["nodes"]["flags"], skip, "w"]))
    naive_cache = {}
    for i, (ts, tb, mname, mask, shuffled) in enumerate(items):
        res.evaluations += 1
        m = model.get(i)
        impl = sc.impl_unary_raw(tb, mask)
        key = id(ts)
        if key not in naive_cache:
            naive_cache[key] = (sc.naive_unary_nodes(ts), bool(has_locally_unary_nodes(ts)))
        unary_nodes, impl2 = naive_cache[key]
        naive = bool(unary_nodes - set(int(u) for u in np.where(mask)[0]))
        naive_all = bool(unary_nodes)
        replay = dict(kind="unary", ts=gen.ts_to_jsonable(ts), mask=[int(b) for b in mask], mask_name=mname,
                      ins=[int(x) for x in tb["ins"]], rem=[int(x) for x in tb["rem"]])
        if m is None:
            res.corr_failures.append(Violation("unary-model-bad-op", "Lean model rejected a tskit input (bad-op)", replay, "B"))
            continue
        stats["hyp"]["valid"] += int(m["flags"][0] == "1")
        stats["hyp"]["nodes_below"] += int(m["flags"][1] == "1")
        stats["hyp"]["n"] += 1
        if m["contains"] != impl:
            res.corr_failures.append(Violation(
                "unary-sweep-model-differs",
                f"_contains_unary_nodes={impl} but Lean model={m['contains']} (mask={mname}, shuffled={shuffled}, trees={ts.num_trees})",
                replay, "B"))
        if m["locally"] != impl2:
            res.corr_failures.append(Violation(
                "unary-iterator-model-differs",
                f"has_locally_unary_nodes={impl2} but Lean model={m['locally']} (trees={ts.num_trees})", replay, "B"))
        # C: the statement on the implementation
        if impl != naive:
            kind = "sweep-detector-misses-unary" if naive else "sweep-detector-false-alarm"
            res.violations.append(Violation(kind, f"_contains_unary_nodes={impl}, naive per-tree scan={naive} "
                                            f"(mask={mname}, unary nodes={sorted(unary_nodes)[:6]})", replay))
        if impl2 != naive_all:
            kind = "iterator-detector-misses-unary" if naive_all else "iterator-detector-false-alarm"
            res.violations.append(Violation(kind, f"has_locally_unary_nodes={impl2}, naive per-tree scan={naive_all}", replay))
        if mname in ("samples", "none") and not shuffled:
            w = bool(contains_unary_nodes(ts, skip_samples=(mname == "samples")))
            if w != naive:
                res.violations.append(Violation("wrapper-mask-wrong", f"contains_unary_nodes(skip_samples={mname == 'samples'})={w}, "
                                                f"naive={naive}", replay))
        stats["result"][f"{mname.split('-')[0]}:{impl}"] = stats["result"].get(f"{mname.split('-')[0]}:{impl}", 0) + 1
        if naive != naive_all:
            stats["mask_matters"] += 1
        if ts.num_trees > 1 and ts.num_edges >= 3:
            res.nontrivial.add(common.canon_key([replay["ts"]["edges"], replay["mask"], replay["ins"], replay["rem"]]))
        if i % 40 == 0:
            res.sample(dict(kind="unary", trees=ts.num_trees, edges=ts.num_edges, nodes=ts.num_nodes, mask=mname,
                            detector=impl, naive=naive, iterator_detector=impl2))


def date_cases(ctx, n, stream, res, stats):
    """C on date(): who is rejected with allow_unary=False."""
    rng = ctx.rng(stream)
    done = 0
    tries = 0
    while done < n and tries < 6 * n:
        tries += 1
        ts, info = gen.sim_ts(rng, n=int(rng.integers(3, 8)), trees=int(rng.choice([1, 2, 4, 8])), muts_per_edge=3.0)
        mode = str(rng.choice(["clean", "unary", "single_event", "sample_unary"]))
        if mode == "single_event":
            ts, how = sc.truncate_edge(ts, rng)
            if how is None:
                continue
        elif mode != "clean":
            ts2 = sc.keep_unary_subset(ts, rng)
            if ts2 is None or ts2.num_edges == 0:
                continue
            ts = ts2
            if mode == "sample_unary":
                ts, k = sc.sample_unary(ts, rng)
        if ts.num_mutations == 0:
            continue
        if rng.random() < 0.5:
            ts, fmode = sc.add_flag_bits(ts, rng, mode="unary")
            mode = mode + "+flag_bits"
        samples = set(int(u) for u in np.where(sample_bit(ts))[0])
        unary = sc.naive_unary_nodes(ts)
        unary_nonsample = unary - samples
        method = str(rng.choice(["variational_gamma", "inside_outside", "maximization"]))
        kw = dict(mutation_rate=info["mu"])
        if method == "variational_gamma":
            kw.update(max_iterations=2, rescaling_intervals=0)
            expect_reject = bool(unary_nonsample)
        else:
            kw.update(population_size=info["Ne"])
            expect_reject = bool(unary)
        r = dating.run_date(ts, method=method, **kw)
        done += 1
        res.evaluations += 1
        rejected = (not r["ok"]) and r["exc"] == "ValueError" and UNARY_MSG in r["msg"].lower()
        other = (not r["ok"]) and not rejected
        cls = "rejected-unary" if rejected else ("accepted" if r["ok"] else f"other:{r['exc']}")
        stats["date"][f"{method}:{mode}:{cls}"] = stats["date"].get(f"{method}:{mode}:{cls}", 0) + 1
        replay = dict(kind="date", ts=gen.ts_to_jsonable(ts), method=method, kw=kw)
        if rejected and not expect_reject:
            res.violations.append(Violation("date-rejects-without-unary-node",
                                            f"{method}: rejected for unary nodes but the naive scan finds none it should see "
                                            f"(unary={sorted(unary)[:5]}, non-sample unary={sorted(unary_nonsample)[:5]})", replay))
        elif r["ok"] and expect_reject:
            res.violations.append(Violation("date-accepts-unary-node",
                                            f"{method}: accepted although node(s) {sorted(unary_nonsample or unary)[:5]} are locally unary",
                                            replay))
        elif other and not expect_reject and mode == "clean":
            stats["date_other_clean"] = stats.get("date_other_clean", 0) + 1
        if (rejected or r["ok"]) and ts.num_trees >= 1:
            res.nontrivial.add(common.canon_key([replay["ts"]["edges"], method, "date"]))
        if done % 10 == 1:
            res.sample(dict(kind="date", method=method, mode=mode, outcome=cls, unary_nodes=len(unary),
                            unary_nonsample=len(unary_nonsample)))


def _stats():
    return dict(fired={}, hyp=dict(valid=0, nodes_below=0, n=0), result={}, mask_matters=0, date={}, wrapper={},
                wrapper_other_flag_bits=0, wrapper_all_unary_nonsamples_flagged=0)


def run(ctx):
    res = Result()
    import tsdate  # noqa: F401
    dating.quiet()
    stats = _stats()
    kernel_cases(ctx, ctx.n(55, 1000), 1, res, stats)
    date_cases(ctx, ctx.n(18, 300), 2, res, stats)
    res.rule = ("B/C: tskit tree sequences (recombination, polytomies, gaps, flanks, historical and internal samples, "
                "keep_unary simplification, dead-end branches, sample nodes that are unary, non-integer coordinates; 35% clean "
                "simulations with a single truncated edge = exactly one unary event, by edge removal or by edge insertion; "
                "10% msprime full ARGs; on half of the inputs extra flag bits 1<<16..1<<20, 1<<30, 2 on the unary nodes / on "
                "random nodes incl. samples) x "
                "3 masks (samples / none / random) x (tskit indexes | tie-shuffled valid indexes): kernel, wrapper, "
                "iterator detector and Lean models compared exactly, and against a naive scan of every tree; date() with "
                "allow_unary=False over 3 methods. Non-trivial = more than one tree and >= 3 edges (kernel cases) or a "
                "date() call that reached the detector; distinct by hash of (edges, mask, indexes).")
    res.extra = dict(input_distribution=stats,
                     hypothesis_hit_rates=dict(validB=f"{stats['hyp']['valid']}/{stats['hyp']['n']}",
                                               nodesBelowB=f"{stats['hyp']['nodes_below']}/{stats['hyp']['n']}"))
    return res


def search(ctx):
    res = Result()
    stats = _stats()
    kernel_cases(ctx, ctx.n(30, 100), 3, res, stats)
    date_cases(ctx, ctx.n(6, 20), 4, res, stats)
    return res


def replay(ctx, payload):
    import tsdate  # noqa: F401
    from tsdate.prior import has_locally_unary_nodes
    dating.quiet()
    d = payload["input"] if "input" in payload else payload.get("correspondence_input")
    ts = gen.ts_from_jsonable(d["ts"])
    if d["kind"] == "date":
        r = dating.run_date(ts, method=d["method"], **d["kw"])
        unary = sc.naive_unary_nodes(ts)
        samples = set(int(u) for u in np.where(sample_bit(ts))[0])
        print("date():", "returned" if r["ok"] else f"raised {r['exc']}: {r['msg']}")
        print("naive scan: unary nodes", sorted(unary), "non-sample", sorted(unary - samples))
        rejected = (not r["ok"]) and UNARY_MSG in r["msg"].lower()
        expect = bool(unary - samples) if d["method"] == "variational_gamma" else bool(unary)
        return rejected == expect or (not r["ok"] and not rejected)
    if d["kind"] == "unaryw":
        from tsdate.util import contains_unary_nodes
        tb = sc.tables_of(ts)
        impl = bool(contains_unary_nodes(ts, skip_samples=d["skip"]))
        m = sc.run_model(sc.encode_unary_wrapper(0, tb, d["skip"])).get(0)
        unary = sc.naive_unary_nodes(ts)
        sb = sample_bit(ts)
        naive = bool(unary - (set(int(u) for u in np.where(sb)[0]) if d["skip"] else set()))
        print(f"implementation: contains_unary_nodes(ts, skip_samples={d['skip']}) =", impl)
        print("model         :", m)
        print("naive scan    :", naive, " unary nodes", sorted(unary), "flags", [int(ts.nodes_flags[u]) for u in sorted(unary)])
        return m is not None and impl == naive == m["contains"]
    tb = sc.tables_of(ts)
    tb["ins"] = np.array(d["ins"], dtype=np.int32)
    tb["rem"] = np.array(d["rem"], dtype=np.int32)
    mask = np.array(d["mask"], dtype=bool)
    impl = sc.impl_unary_raw(tb, mask)
    m = sc.run_model(sc.encode_unary(0, tb, mask)).get(0)
    unary = sc.naive_unary_nodes(ts)
    naive = bool(unary - set(int(u) for u in np.where(mask)[0]))
    impl2 = bool(has_locally_unary_nodes(ts))
    print("implementation: _contains_unary_nodes =", impl, " has_locally_unary_nodes =", impl2)
    print("model         :", m)
    print("naive scan    : masked", naive, " unmasked", bool(unary), " unary nodes", sorted(unary))
    return m is not None and impl == naive == m["contains"] and impl2 == bool(unary) == m["locally"]
