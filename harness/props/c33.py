"""
C33 — provenance records each call exactly once.

A  translate/provparams.py regenerates Gen/ProvParams.lean (call sites that can touch the provenance
   table on every public call path, static chain counts, signatures, recorded keys); Props/C33
   re-proves: one guarded record site per entry and everything else switched off; old rows are a
   prefix; exactly one row appended / none when off; the record holds command + every run()
   parameter (defaults resolved) + the generic parameters.
B  correspondence: real calls over entry points x methods x record_provenance x parameter values x
   existing provenance rows; the resulting provenance table (old rows by identity, new row's
   `parameters` in dict order with values) vs the Lean model run on the same call.
C  the statement on the real tables: exactly one new, valid record naming the command, carrying every
   passed result-affecting parameter and naming no parameter that is not one of this call (keys within
   the called function's signature + passed extras); earlier rows byte-identical; off => table unchanged.
   All calls of a run are made one after the other in one process, including back-to-back pairs that
   share few parameters (preprocess_ts(keep_unary=True) then preprocess_ts(); preprocess then date; ...).
"""

import json

import numpy as np

from .. import common, gen, prov_corr as pc
from ..common import Result, Violation

META = dict(
    level='Lean theorems over a model of provenance recording (table = list, a run = the provenance-affecting call sites it executes): for every public entry point (date, three methods, preprocess_ts, split_disjoint_nodes), every old table and either flag value - old records are a prefix of the result (unconditional); exactly one record appended when on, table unchanged when off (given the regenerated static facts: single flag-guarded record site per entry, one loop-free static call chain to it, every tskit/tsdate callee given record_provenance=False, single add_row); the record holds command = method name, every parameter of run() with the value used (defaults resolved) and the generic parameters. the nine generic keys hold the values passed (they include every result-affecting keyword of date() except priors); the preprocess_ts record holds every named parameter with defaults resolved and every extra keyword handed to simplify. The exact list of public keywords that never reach the record is a theorem; the only result-affecting one left is priors (known finding). Numpy-typed parameter values are part of the correspondence (the record must hold the plain value). The static call graph is over-approximated by name; that a static chain executes exactly once is observed (B), not proved.',
    note='Lean kernel + {propext, Classical.choice, Quot.sound}; translator translate/provparams.py (AST only) trusted, cross-checked by running the model against real calls; tskit provenance schema validation by contract',
    technique='static site table regenerated from source + generic list-append theorems + decidable checks re-proved per run + correspondence on real calls',
    ref='§3 C33',
)
LEAN_PROPS = ["TsdateVerif.Props.C33"]
LEAN_BUILD = ["TsdateVerif.Model.Proto", "TsdateVerif.Gen.ProvParams"]
TRANSLATORS = ["provparams"]
ASSUMPTIONS = [
    "tskit never touches the provenance table except through the methods listed in translate/provparams.py TSKIT_RECORDING (simplify, delete_intervals, ...) and dump_tables() copies it verbatim",
    "the name-based call graph over-approximates the real one; a static chain count of 1 bounds the number of record calls per run by 1 only if no recording function is re-entered (observed on every real call)",
    "PopulationSizeHistory.as_dict() is taken by contract (normalisation of population_size)",
]
TRUSTED = ["translate/provparams.py; harness/prov_corr.py value tokens"]



# ----------------------------------------------------------------------------- cases

def input_ts(rng):
    for _ in range(100):
        ts, info = gen.sim_ts(rng, n=int(rng.integers(3, 6)), trees=int(rng.choice([1, 2, 3])), muts_per_edge=3.0, Ne=100.0, L=1e3)
        if ts.num_mutations >= 4:
            return ts, info
    raise RuntimeError("no input")


def dating_param_sets(method, info, rng, n_combo, ts=None):
    import tsdate
    mu, ne = info["mu"], info["Ne"]
    vg = method == "variational_gamma"
    base = {"mutation_rate": mu}
    if vg:
        base["rescaling_intervals"] = 0
    else:
        base["population_size"] = ne
    generic = [("time_units", "years"), ("progress", False), ("min_branch_length", 0.5), ("constr_iterations", 3),
               ("allow_unary", True), ("set_metadata", False), ("return_fit", True), ("return_likelihood", True)]
    if vg:
        spec = [("max_iterations", 3), ("max_shape", 50.0), ("rescaling_intervals", 2), ("rescaling_iterations", 2),
                ("match_segregating_sites", True), ("regularise_roots", False), ("singletons_phased", False)]
    else:
        spec = [("eps", 1e-6), ("probability_space", "linear"), ("num_threads", 1),
                ("population_size", {"population_size": [ne, 2 * ne], "time_breaks": [50.0]}),
                ("population_size", tsdate.demography.PopulationSizeHistory(np.array([ne, 3 * ne]), np.array([20.0])))]
        if method == "inside_outside":
            spec += [("outside_standardize", False), ("ignore_oldest_root", True)]
    sets = [dict(base)]
    for k, v in generic + spec:
        d = dict(base)
        d[k] = v
        sets.append(d)
    if not vg and ts is not None:
        d = dict(base)
        d.pop("population_size")
        d["priors"] = tsdate.build_prior_grid(ts, population_size=ne)
        sets.append(d)
    pool = generic + spec
    for _ in range(n_combo):
        d = dict(base)
        for j in rng.permutation(len(pool))[: int(rng.integers(2, 5))]:
            d[pool[int(j)][0]] = pool[int(j)][1]
        sets.append(d)
    return sets


def numpy_sets(method, info):
    mu, ne = info["mu"], info["Ne"]
    if method == "variational_gamma":
        return [{"mutation_rate": mu, "rescaling_intervals": 0, "max_iterations": np.int64(3)},
                {"mutation_rate": np.float32(mu), "rescaling_intervals": np.int32(0), "max_shape": np.float64(40.0)},
                {"mutation_rate": mu, "rescaling_intervals": 0, "min_branch_length": np.float64(0.25), "constr_iterations": 2,
                 "match_segregating_sites": np.bool_(False)}]
    return [{"mutation_rate": mu, "population_size": ne, "num_threads": np.int64(1)},
            {"mutation_rate": np.float64(mu), "population_size": np.float64(ne), "eps": np.float32(1e-6)},
            {"mutation_rate": mu, "population_size": {"population_size": np.array([ne, 2 * ne]), "time_breaks": np.array([30.0])}}]


def preprocess_sets():
    return [{}, {"minimum_gap": 5.0}, {"erase_flanks": False}, {"split_disjoint": False}, {"remove_telomeres": False},
            {"delete_intervals": [[0, 10.0]]}, {"filter_sites": True}, {"filter_populations": True}, {"keep_unary": True},
            {"keep_input_roots": True, "keep_unary": False, "minimum_gap": 7.5},
            {"minimum_gap": 20, "erase_flanks": False, "split_disjoint": False, "filter_individuals": True}]


def preprocess_numpy_sets():
    return [{"delete_intervals": np.array([[0, 10.0]])}, {"minimum_gap": np.int64(5)}, {"erase_flanks": np.bool_(False)}]


# ----------------------------------------------------------------------------- oracle (stage C)

def same_value(recorded, passed, name):
    want = pc.jsonable(pc.normalise_population_size(passed) if name == "population_size" else passed)
    if isinstance(want, tuple):
        return False
    if isinstance(want, float) and isinstance(recorded, (int, float)):
        return float(recorded) == want
    return recorded == want


def usable_keys(entry, method, kwargs):
    """Keys a record of *this* call may name: `command`, the keyword parameters of the function called (for the dating
    entries also those of the date() wrapper, of EstimationMethod.__init__ behind **kwargs and of the method's run()),
    and whatever extra keywords were explicitly passed.  Computed from the real signatures, not from the model."""
    import inspect

    import tsdate
    import tsdate.core as core

    def params(f):
        return {n for n, p in inspect.signature(f).parameters.items()
                if p.kind in (p.KEYWORD_ONLY, p.POSITIONAL_OR_KEYWORD)} - {"self", "ts", "tree_sequence"}

    keys = {"command"} | set(kwargs)
    if entry in ("date",) + tuple(pc.DATING):
        cls = {c.name: c for c in (core.VariationalGammaMethod, core.InsideOutsideMethod, core.MaximizationMethod)}[method]
        keys |= params(getattr(tsdate, method)) | params(tsdate.date) | params(core.EstimationMethod.__init__) | params(cls.run)
    elif entry == "preprocess_ts":
        keys |= params(tsdate.preprocess_ts)
    else:
        keys |= params(tsdate.util.split_disjoint_nodes)
    return keys


def oracle(entry, method, kwargs, flag, pre, post):
    import tskit
    bad = []
    on = flag is not False
    if not on:
        if post != pre:
            bad.append(("recording-off-but-table-changed", f"record_provenance=False yet provenance table went from {len(pre)} to {len(post)} rows"))
        return bad
    if post[: len(pre)] != pre:
        bad.append(("earlier-record-changed", "an existing provenance row was modified, dropped or reordered"))
    n_new = len(post) - len(pre)
    if n_new != 1:
        if n_new <= 0:
            kind = "explicit-none-not-treated-as-true" if flag is None else "no-record-appended"
        else:
            kind = "more-than-one-record-appended"
        bad.append((kind, f"{n_new} new provenance rows with record_provenance={'<omitted>' if flag == OMIT else flag}"
                          + (" (None is documented as treated as True)" if flag is None else "")))
        return bad
    try:
        rec = json.loads(post[-1][0])
        tskit.validate_provenance(rec)
    except Exception as e:  # noqa: BLE001
        bad.append(("invalid-provenance-record", f"{type(e).__name__}: {str(e)[:100]}"))
        return bad
    if rec.get("software", {}).get("name") != "tsdate":
        bad.append(("record-not-from-tsdate", f"software = {rec.get('software')}"))
    params = rec.get("parameters", {})
    want_cmd = method if entry in ("date",) + tuple(pc.DATING) else entry
    if params.get("command") != want_cmd:
        bad.append(("wrong-command", f"command = {params.get('command')!r}, expected {want_cmd!r}"))
    # the record names the parameters used *by this call*: no key of another function or of an earlier call
    for k in sorted(set(params) - usable_keys(entry, method, kwargs)):
        bad.append((f"record-names-parameter-not-of-this-call:{k}",
                    f"record carries {k}={str(params[k])[:40]}, which is neither a parameter of {want_cmd} nor passed in this call"))
    for k, v in kwargs.items():
        if k in pc.SIMPLIFY_KWARGS:
            if k not in params:
                bad.append(("passed-parameter-not-recorded:simplify-kwargs", f"{k}={v!r} passed on to simplify() is not in the record"))
            elif not same_value(params[k], v, k):
                bad.append((f"recorded-value-differs:{k}", f"{k}: passed {v!r}, recorded {params[k]!r}"))
            continue
        if k == "remove_telomeres":
            if params.get("erase_flanks") != v:
                bad.append(("passed-parameter-not-recorded:remove_telomeres", f"alias value {v!r} not recorded as erase_flanks"))
            continue
        if k not in pc.RESULT_AFFECTING:
            continue
        if k not in params:
            bad.append((f"passed-parameter-not-recorded:{k}", f"{k}={str(v)[:40]} was passed (and affects the result) but is not in the record"))
        elif not same_value(params[k], v, k):
            bad.append((f"recorded-value-differs:{k}", f"{k}: passed {str(v)[:40]}, recorded {str(params[k])[:40]}"))
    return bad


# ----------------------------------------------------------------------------- one call

OMIT = "omit"     # record_provenance not passed at all (as opposed to an explicit None, documented as "treated as True")
FLAGS = (OMIT, None, True, False)

HISTORY = []      # every call made so far in this process (entry, method, kwargs, flag): the state a record could leak from


def one_call(res, stats, pending, cid, entry, method, ts, kwargs, flag, numpy_case=False):
    kw = dict(kwargs)
    if flag != OMIT:
        kw["record_provenance"] = flag
    pre = pc.prov_rows(ts)
    r = pc.call_entry(entry, method, ts, kw)
    res.evaluations += 1
    label = f"{entry}{'/' + method if entry == 'date' else ''}({', '.join(f'{k}={str(v)[:24]}' for k, v in kw.items())}) on {len(pre)} earlier rows"
    rp = dict(kind="prov-call", entry=entry, method=method, ts=gen.ts_to_jsonable(ts), n_prior=len(pre), flag=flag,
              kwargs={k: (pc.jsonable(v) if not isinstance(pc.jsonable(v), tuple) else f"<{type(v).__name__}>") for k, v in kwargs.items()},
              n_preceding=len(HISTORY))
    HISTORY.append(dict(entry=entry, method=method, kwargs=rp["kwargs"], flag=flag))
    stats["calls"][entry] = stats["calls"].get(entry, 0) + 1
    if not r["ok"]:
        stats["raised"][r["exc"]] = stats["raised"].get(r["exc"], 0) + 1
        if r["exc"] == "TypeError" and "JSON serializable" in r["msg"]:
            kind = "numpy-parameter-value-breaks-provenance-json" if numpy_case else "provenance-json-encoding-failed"
            res.violations.append(Violation(kind, f"{label}: raised TypeError at the provenance step: {r['msg'][:80]}", rp))
        return None
    out = r["out"][0] if isinstance(r["out"], tuple) else r["out"]
    post = pc.prov_rows(out)
    for kind, what in oracle(entry, method, kwargs, flag, pre, post):
        res.violations.append(Violation(kind, f"{label}: {what}", rp))
    if numpy_case:
        stats["numpy_cases_ok"] += 1
    # ---- B (numpy-typed values included: the record must hold the plain value)
    passed = pc.bound_args(entry, method or entry, kw)
    passed.pop("record_provenance", None)
    npop = pc.normalise_population_size(passed.get("population_size")) if entry in ("date",) + tuple(pc.DATING) else None
    computed = None
    on = flag is not False          # omitted, None and True all mean on
    if entry == "preprocess_ts" and on and kwargs.get("delete_intervals") is None and len(post) == len(pre) + 1:
        try:
            computed = json.loads(post[-1][0])["parameters"].get("delete_intervals")
        except Exception:  # noqa: BLE001
            computed = None
    extra = None
    if entry == "preprocess_ts":
        extra = {k: v for k, v in kwargs.items() if k in pc.SIMPLIFY_KWARGS}
        passed = {k: v for k, v in passed.items() if k not in pc.SIMPLIFY_KWARGS}
    passed.pop("priors", None)
    pending[cid] = dict(text=pc.encode_case(cid, entry, method if entry in ("date",) + tuple(pc.DATING) else None,
                                            None if flag in (OMIT, None) else flag, len(pre), passed,
                                            npop, computed if computed is not None else ([] if entry == "preprocess_ts" else None), extra),
                        impl=pc.impl_rows(pre, post), label=label, replay=rp, on=on)
    if on and len(post) == len(pre) + 1:
        res.nontrivial.add(common.canon_key([entry, method, sorted((k, str(v)[:30]) for k, v in kw.items()), len(pre)]))
        if len(kwargs) >= 3:
            try:
                res.sample(dict(call=label, new_record_parameters=json.loads(post[-1][0])["parameters"]))
            except Exception:  # noqa: BLE001
                pass
    return out


def compare_with_model(res, pending, stats):
    replies = pc.run_model([p["text"] for p in pending.values()])
    for cid, p in pending.items():
        m = replies.get(cid)
        if m is None:
            res.corr_failures.append(Violation("provenance-model-rejected-case", f"{p['label']}: model answered bad-op / nothing",
                                               dict(p["replay"], model_case=p["text"]), "B"))
            continue
        stats["model_rows_added"][len(m) - p["replay"]["n_prior"]] = stats["model_rows_added"].get(len(m) - p["replay"]["n_prior"], 0) + 1
        if m != p["impl"]:
            what = "row count" if len(m) != len(p["impl"]) else "recorded parameters"
            res.corr_failures.append(Violation(
                "provenance-model-differs", f"{p['label']}: provenance table differs from the Lean model in {what}: impl {str(p['impl'][-1:])[:200]} / model {str(m[-1:])[:200]}",
                dict(p["replay"], model_case=p["text"], impl=p["impl"], model=m), "B"))


def new_stats():
    return dict(calls={}, raised={}, model_rows_added={}, numpy_cases_ok=0, sequences=0)


def body(ctx, res, stats, pending, rng, n_combo, n_inputs):
    cid = [0]

    def nid():
        cid[0] += 1
        return f"k{cid[0]}"

    for inp in range(n_inputs):
        ts0, info = input_ts(rng)
        for method in pc.DATING:
            sets = dating_param_sets(method, info, rng, n_combo, ts0)
            for si, kwargs in enumerate(sets):
                for entry in ("date", method):
                    flag = FLAGS[(si + (0 if entry == "date" else 1) + inp) % 4]
                    k = [0, 1, 3][(si + inp) % 3]
                    ts = pc.with_prior_rows(ts0, rng, k)
                    one_call(res, stats, pending, nid(), entry, method, ts, kwargs, flag)
            # every flag value on the default call of both entries, with 2 earlier rows
            for entry in ("date", method):
                for flag in FLAGS:
                    one_call(res, stats, pending, nid(), entry, method, pc.with_prior_rows(ts0, rng, 2), sets[0], flag)
            for kwargs in numpy_sets(method, info):
                one_call(res, stats, pending, nid(), method, method, pc.with_prior_rows(ts0, rng, 1), kwargs, True, numpy_case=True)
                one_call(res, stats, pending, nid(), method, method, pc.with_prior_rows(ts0, rng, 1), kwargs, False, numpy_case=True)
        # preprocess_ts / split_disjoint_nodes
        tsp = pc.with_prior_rows(ts0, rng, 2)
        for si, kwargs in enumerate(preprocess_sets()):
            for flag in FLAGS:
                one_call(res, stats, pending, nid(), "preprocess_ts", None, tsp if si % 2 else pc.with_prior_rows(ts0, rng, 0), kwargs, flag)
        for kwargs in preprocess_numpy_sets():
            one_call(res, stats, pending, nid(), "preprocess_ts", None, tsp, kwargs, True, numpy_case=True)
            one_call(res, stats, pending, nid(), "preprocess_ts", None, tsp, kwargs, False, numpy_case=True)
        for flag in FLAGS:
            one_call(res, stats, pending, nid(), "split_disjoint_nodes", None, tsp, {}, flag)
        # a pipeline: preprocess -> date -> date again; each step must add exactly one row on top of the previous ones
        cur = pc.with_prior_rows(ts0, rng, 1)
        steps = [("preprocess_ts", None, {}), ("date", "variational_gamma", {"mutation_rate": info["mu"], "rescaling_intervals": 0}),
                 ("inside_outside", "inside_outside", {"mutation_rate": info["mu"], "population_size": info["Ne"]}),
                 ("date", "maximization", {"mutation_rate": info["mu"], "population_size": info["Ne"]})]
        for entry, method, kwargs in steps:
            nxt = one_call(res, stats, pending, nid(), entry, method, cur, kwargs, OMIT)
            if nxt is None:
                break
            cur = nxt
        stats["sequences"] += 1
        # calls that follow each other in this process and share no / few parameters: a record must not inherit keys
        # from the call before it (each pair is run back to back, on the same input)
        mu, ne = info["mu"], info["Ne"]
        pairs = [
            [("preprocess_ts", None, {"keep_unary": True}), ("preprocess_ts", None, {})],
            [("preprocess_ts", None, {"minimum_gap": 9.0, "keep_input_roots": True}), ("date", "variational_gamma", {"mutation_rate": mu, "rescaling_intervals": 0})],
            [("inside_outside", "inside_outside", {"mutation_rate": mu, "population_size": ne, "eps": 1e-6}),
             ("variational_gamma", "variational_gamma", {"mutation_rate": mu, "rescaling_intervals": 0})],
            [("date", "variational_gamma", {"mutation_rate": mu, "rescaling_intervals": 2, "max_shape": 30.0}),
             ("maximization", "maximization", {"mutation_rate": mu, "population_size": ne})],
            [("date", "maximization", {"mutation_rate": mu, "population_size": ne, "num_threads": 1}), ("split_disjoint_nodes", None, {}),
             ("preprocess_ts", None, {"erase_flanks": False})],
        ]
        base = pc.with_prior_rows(ts0, rng, 1)
        for seq in pairs:
            for entry, method, kwargs in seq:
                one_call(res, stats, pending, nid(), entry, method, base, kwargs, True)
            stats["sequences"] += 1


def attach_history(res):
    """A record can only be wrong about *this* call because of what happened earlier in the process: make the replay of
    the first violations self-contained by listing the calls that preceded them (re-run, in order, by `replay`)."""
    for v in (res.violations[:40] + res.corr_failures[:5]):
        n = v.replay.get("n_preceding") if isinstance(v.replay, dict) else None
        if n:
            v.replay["preceding_calls"] = [dict(h) for h in HISTORY[:n]][-400:]


def run(ctx):
    res = Result()
    import tsdate  # noqa: F401
    stats = new_stats()
    pending = {}
    body(ctx, res, stats, pending, ctx.rng(1), ctx.n(3, 25), ctx.n(1, 8))
    compare_with_model(res, pending, stats)
    attach_history(res)
    res.rule = ("Real calls over entry points {date x 3 methods, the 3 method functions, preprocess_ts, split_disjoint_nodes} x record_provenance "
                "{omitted, None, True, False} x parameter sets (each generic and each method-specific keyword alone, random combinations, population_size as "
                "number / dict / PopulationSizeHistory, numpy-typed values) x 0-3 earlier provenance rows (one of them not JSON), plus a 4-step pipeline "
                "feeding each output to the next call and back-to-back call sequences in the same process that share few parameters. Each call: provenance table before/after compared with the Lean model (old rows by identity, new "
                "row's parameters in dict order with values) and checked against the statement. Non-trivial = recording on and a row was appended; "
                "distinct by (entry, method, keyword values, number of earlier rows).")
    res.extra = dict(input_distribution=stats)
    return res


def search(ctx):
    res = Result()
    stats = new_stats()
    pending = {}
    body(ctx, res, stats, pending, ctx.rng(7), ctx.n(1, 4), ctx.n(1, 2))
    compare_with_model(res, pending, stats)
    attach_history(res)
    res.corr_failures = []
    return res


def replay(ctx, payload):
    import tsdate  # noqa: F401
    d = payload.get("input") or payload.get("correspondence_input")
    ts = pc.with_prior_rows(gen.ts_from_jsonable(d["ts"]), ctx.rng(9), d["n_prior"])
    res, stats, pending = Result(), new_stats(), {}
    kwargs = {k: v for k, v in d["kwargs"].items() if not (isinstance(v, str) and v.startswith("<"))}
    prev = d.get("preceding_calls") or []
    for h in prev:      # the calls made earlier in the failing process, in order, on the same input
        hk = {k: v for k, v in h["kwargs"].items() if not (isinstance(v, str) and v.startswith("<"))}
        if h["flag"] != OMIT:
            hk["record_provenance"] = h["flag"]
        pc.call_entry(h["entry"], h["method"], ts, hk)
    print(f"re-ran {len(prev)} preceding call(s) of the failing process, now the failing call:")
    one_call(res, stats, pending, "replay", d["entry"], d["method"], ts, kwargs, d["flag"])
    compare_with_model(res, pending, stats)
    for p in pending.values():
        print("implementation rows:", p["impl"])
    print("raised:", stats["raised"])
    for v in res.violations:
        print("violation:", v.kind, "-", v.what)
    for v in res.corr_failures:
        print("model differs:", v.what)
    return not res.violations and not res.corr_failures
