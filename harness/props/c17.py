"""
C17 — population-size time transforms are exact and mutually inverse.

A  theorems in Props/C17 over the `_change_time_measure` model (every accepted history, every t >= 0):
   to_coalescent = explicit piecewise integral; both round trips; strict monotonicity; bi-Lipschitz
   continuity; left/right formulas agree at breaks; both maps fix 0; as_dict() round trip;
   gamma_to_natural: moment matching exact, constant size => (shape, rate/(2N)).
B  the Lean model run at Float against the real class bit-for-bit (stored arrays, both maps incl. exact
   break points and their float neighbours, as_dict), at Rat against the real class within the rounding
   scale of the formula; the static `_change_time_measure` on free inputs; rejected inputs <-> bad-op;
   gamma_to_natural arithmetic with the scipy values passed in as data.
C  oracle on the real class: independent exact integral (Fractions), round trips, monotone, continuity
   at breaks, fixes 0, as_dict rebuild, gamma_to_natural vs numerical quadrature / constant-size closed form.
"""

import math
from fractions import Fraction

import numpy as np

from .. import common, demog_corr as dc
from ..common import Result, Violation, f2h

META = dict(
    level='Lean theorems over the model of PopulationSizeHistory._change_time_measure (searchsorted index + cumulative step), for every history the constructor accepts and every t >= 0, in exact arithmetic: to_coalescent equals the explicit piecewise integral of 1/(2N); to_natural(to_coalescent t) = t and to_coalescent(to_natural c) = c; both maps strictly increasing, bi-Lipschitz (hence continuous), left/right formulas agree at every break, fix 0; init(as_dict()) rebuilds the same object; gamma_to_natural moment matching is exact and for one epoch returns (shape, rate/(2N)) from Gamma(s+1)=s*Gamma(s), P(a,0)=0, P(a,inf)=1 as hypotheses. Full in exact arithmetic. Model tied to the real class bit-for-bit at Float on generated histories (1-8 epochs, sizes/breaks 1e-3..1e9, times incl. exact breaks). Known finding F15: gamma_to_natural overflows (nan / [0,0] / OverflowError) for shape >= ~170 or rate**(shape+2) beyond the double range. Outside: floating-point cancellation (round trips lose digits when adjacent sizes differ by many orders of magnitude - measured, bounded by the conditioning of the formula), accuracy of scipy special functions, multi-epoch gamma_to_natural only by quadrature oracle.',
    note='Lean kernel + {propext, Classical.choice, Quot.sound}; sampled bit-exact correspondence at Float, conditioned tolerance at Rat; numpy searchsorted/cumsum and scipy gamma/gammainc by contract',
    technique='refinement of index+cumulative-step code to a recursive integral spec, round trip by induction on the epoch list; bit-exact model/implementation correspondence',
    ref='§3 C17',
)
LEAN_PROPS = ["TsdateVerif.Props.C17"]
LEAN_BUILD = ["TsdateVerif.Model.Proto", "TsdateVerif.Model.Demography"]
ASSUMPTIONS = [
    "theorems are over a linear ordered field (exact arithmetic); rounding is outside them and is measured by the check against the conditioning of the formula",
    "np.searchsorted(side='right') on a strictly increasing array = number of entries <= t; np.cumsum is the sequential running sum",
    "special functions of gamma_to_natural are parameters with the stated identities as hypotheses",
]

TOL_FACTOR = 16.0      # x the rounding scale; observed worst ratio 0.55 (round trips), 1.1 (forward)


# ----------------------------------------------------------------------------- B

def stage_b_hist(ctx, res, stats, cases, batch=None):
    own = batch is None
    batch = batch or dc.Batch()
    ids = [(batch.add(dc.enc_hist, c, "f"), batch.add(dc.enc_hist, c, "q")) for c in cases]
    if own:
        batch.run()
    else:
        yield
    for (idf, idq), c in zip(ids, cases):
        ts, cs = np.array(c["ts"]), np.array(c["cs"])
        try:
            h = dc.make_history(c["ps"], c["tb"])
            tc, tn = h.to_coalescent_timescale(ts), h.to_natural_timescale(cs)
            d = h.as_dict()
        except Exception as e:  # noqa: BLE001  exceptions of the real code are data
            res.evaluations += 1
            res.violations.append(Violation(
                "transform-raises", f"PopulationSizeHistory raised {type(e).__name__} on a valid history / non-negative times: {str(e)[:100]}",
                dict(kind="hist", ps=[f2h(x) for x in c["ps"]], tb=[f2h(x) for x in c["tb"]],
                     ts=[f2h(x) for x in c["ts"]], cs=[f2h(x) for x in c["cs"]])))
            continue
        impl = dict(tc=list(tc), tn=list(tn), cb=list(h.coalescent_breaks), cr=list(h.coalescent_rate),
                    d1=[float(x) for x in d["population_size"]], d2=[float(x) for x in d.get("time_breaks", [])])
        res.evaluations += 1
        stats["epochs"][len(c["ps"])] = stats["epochs"].get(len(c["ps"]), 0) + 1
        stats["modes"][c["mode"]] = stats["modes"].get(c["mode"], 0) + 1
        stats["times"] += len(ts) + len(cs)
        stats["hyp_initOk"] += 1
        replay = dict(kind="hist", ps=[f2h(x) for x in c["ps"]], tb=[f2h(x) for x in c["tb"]],
                      ts=[f2h(x) for x in c["ts"]], cs=[f2h(x) for x in c["cs"]])
        if len(c["ps"]) > 1:
            res.nontrivial.add(common.canon_key(replay))
        mf = batch.get(idf)
        if mf is None:
            res.corr_failures.append(Violation("model-rejects-valid-history", "Lean model answered bad-op on an accepted history", replay, "B"))
            continue
        for tag, v in impl.items():
            if not dc.bits_equal(mf[tag], v):
                u = dc.max_ulps(mf[tag], v)
                res.corr_failures.append(Violation(
                    f"float-model-differs-{tag}",
                    f"{tag}: Lean model at Float differs from PopulationSizeHistory by up to {u} ulp(s) "
                    f"({len(c['ps'])} epoch(s), mode {c['mode']})",
                    dict(replay, field=tag, impl=[f2h(x) for x in v], model=[f2h(x) for x in mf[tag]]), "B"))
                break
        if mf["rt"] != [1]:
            res.corr_failures.append(Violation("model-asdict-not-identical", "model: init(as_dict()) differs at Float", replay, "B"))
        # exact model vs implementation, against the rounding scale of the formula
        mq = batch.get(idq)
        if mq is None:
            res.corr_failures.append(Violation("model-rejects-valid-history", "Lean model (Rat) answered bad-op", replay, "B"))
            continue
        for t, y, q in zip(ts, tc, mq["tc"]):
            tol = TOL_FACTOR * dc.err_coal(h, t)
            err = abs(float(Fraction(float(y)) - q))
            stats["worst_fwd_ratio"] = max(stats["worst_fwd_ratio"], err / tol * TOL_FACTOR if tol else 0.0)
            if err > tol:
                res.corr_failures.append(Violation(
                    "exact-model-differs-tc", f"to_coalescent({t!r}) = {float(y)!r} but exact model gives {float(q)!r} "
                    f"(|diff| {err:.3g} > {tol:.3g})", dict(replay, t=f2h(t)), "B"))
                break
        for cval, y, q in zip(cs, tn, mq["tn"]):
            tol = TOL_FACTOR * dc.err_nat(h, cval)
            err = abs(float(Fraction(float(y)) - q))
            if err > tol:
                res.corr_failures.append(Violation(
                    "exact-model-differs-tn", f"to_natural({cval!r}) = {float(y)!r} but exact model gives {float(q)!r} "
                    f"(|diff| {err:.3g} > {tol:.3g})", dict(replay, c=f2h(cval)), "B"))
                break
    if cases:
        c = cases[0]
        res.sample(dict(kind="hist", population_size=c["ps"], time_breaks=c["tb"], n_times=len(c["ts"]), mode=c["mode"]))


def stage_b_ctm(ctx, res, stats, n_cases, batch):
    """the static method on free inputs (measures not of the form 2N, breaks any valid list) and
    on inputs violating each assertion"""
    from tsdate.demography import PopulationSizeHistory as P
    rng = ctx.rng(4)
    cases = []
    for _ in range(n_cases):
        k = int(rng.integers(1, 7))
        bs = np.concatenate([[0.0], np.cumsum(dc.loguniform(rng, 1e-3, 1e6, size=k - 1))])
        ms = dc.loguniform(rng, 1e-6, 1e6, size=k)
        ts = np.array(dc.gen_times(rng, bs, n_extra=3))
        bad = None
        if rng.random() < 0.25:
            bad = str(rng.choice(["neg-time", "zero-measure", "first-not-zero", "unsorted", "size"]))
            if bad == "neg-time":
                ts = np.append(ts, -1.0)
            elif bad == "zero-measure":
                ms[int(rng.integers(0, k))] = 0.0
            elif bad == "first-not-zero":
                bs = bs + 1.0
            elif bad == "unsorted" and k > 2:
                bs[1], bs[2] = bs[2], bs[1]
            elif bad == "size":
                ms = np.append(ms, 1.0)
            else:
                bad = "first-not-zero"
                bs = bs + 1.0
        cases.append(dict(bs=[float(x) for x in bs], ms=[float(x) for x in ms], ts=[float(x) for x in ts], bad=bad))
    ids = [batch.add(dc.enc_ctm, c, "f") for c in cases]
    yield
    for i, c in zip(ids, cases):
        res.evaluations += 1
        replay = dict(kind="ctm", bs=[f2h(x) for x in c["bs"]], ms=[f2h(x) for x in c["ms"]], ts=[f2h(x) for x in c["ts"]])
        try:
            r = P._change_time_measure(np.array(c["ts"]), np.array(c["bs"]), np.array(c["ms"]))
            impl = dict(nt=list(r[0]), nb=list(r[1]), nm=list(r[2]))
        except (AssertionError, IndexError, ValueError):
            impl = None
        m = batch.get(i)
        stats["ctm_pre_true"] += int(impl is not None)
        stats["ctm_pre_false"] += int(impl is None)
        if (impl is None) != (m is None):
            res.corr_failures.append(Violation(
                "ctm-guard-differs", f"_change_time_measure {'rejects' if impl is None else 'accepts'} an input the model "
                f"{'accepts' if impl is None else 'rejects'} (seeded fault: {c['bad']})", replay, "B"))
            continue
        if impl is None:
            continue
        for tag in ("nt", "nb", "nm"):
            if not dc.bits_equal(m[tag], impl[tag]):
                res.corr_failures.append(Violation(
                    f"float-model-differs-ctm-{tag}", f"_change_time_measure {tag} differs from the Lean model by up to "
                    f"{dc.max_ulps(m[tag], impl[tag])} ulp(s)", dict(replay, field=tag), "B"))
                break


def stage_b_invalid(ctx, res, stats, n_cases, batch):
    rng = ctx.rng(5)
    cases = []
    for _ in range(n_cases):
        ps, tb, kind = dc.gen_invalid(rng)
        cases.append(dict(ps=ps, tb=tb, ts=[0.0], cs=[0.0], mode=kind))
    ids = [batch.add(dc.enc_hist, c, "f") for c in cases]
    yield
    for i, c in zip(ids, cases):
        res.evaluations += 1
        try:
            dc.make_history(c["ps"], c["tb"])
            raised = None
        except ValueError:
            raised = "ValueError"
        except Exception as e:  # noqa: BLE001
            raised = type(e).__name__
        stats["invalid"][c["mode"]] = stats["invalid"].get(c["mode"], 0) + 1
        replay = dict(kind="invalid", ps=[f2h(x) for x in c["ps"]], tb=[f2h(x) for x in c["tb"]], fault=c["mode"])
        if raised != "ValueError":
            res.violations.append(Violation("invalid-history-accepted",
                                            f"PopulationSizeHistory accepted/raised {raised} on invalid input ({c['mode']})", replay))
        if batch.get(i) is not None:
            res.corr_failures.append(Violation("model-accepts-invalid-history", f"initOk true on invalid input ({c['mode']})", replay, "B"))


GAMMA_POOL = [(1.0, 1.0), (2.0, 0.5), (5.0, 3.0), (0.7, 2.0), (20.0, 25.0), (60.0, 100.0)]


def gamma_query(h, ps, tb, mode, shape, rate, source):
    """one gamma_to_natural query: the special-function values exactly as the code computes them (inf/0 included)"""
    import scipy.special as sp
    with np.errstate(all="ignore"):
        C = float(np.exp(shape * np.log(rate) - sp.loggamma(shape)))
        gam = [float(sp.gamma(shape + k)) for k in range(3)]
        pw = [float(np.float64(rate) ** (shape + k)) for k in range(3)]
        P = [[float(sp.gammainc(shape + k, rate * x)) for x in h.coalescent_breaks] for k in range(3)]
        Pinf = [float(sp.gammainc(shape + k, np.inf)) for k in range(3)]
    overflow = not (np.isfinite(gam[2]) and np.isfinite(pw[2]) and pw[0] > 0 and np.isfinite(C) and C > 0)
    return dict(ps=ps, tb=tb, shape=float(shape), rate=float(rate), C=C, gam=gam, pw=pw, P=P, Pinf=Pinf, mode=mode,
                source=source, overflow=overflow)


def gamma_sequence(rng, n_hist):
    """A *sequence* of queries: several histories, each asked for a few (shape, rate) pairs taken from one pool that is
    shared by all histories of the run (incl. the defaults shape=1, rate=1) plus one pair adapted to the history, in a
    randomly interleaved order - the class must answer each query from (history, shape, rate) alone."""
    pool = list(GAMMA_POOL) + [(float(dc.loguniform(rng, 0.3, 30)), float(dc.loguniform(rng, 0.05, 50))) for _ in range(2)]
    queries = []
    for hi in range(n_hist):
        ps, tb, mode = dc.gen_history(rng, wide=False)
        if len(ps) > 7:        # numpy's sum is pairwise-unrolled from 8 elements on: the model sums sequentially
            ps, tb = ps[:7], tb[:6]
        h = dc.make_history(ps, tb)
        picks = [pool[k] for k in rng.choice(len(pool), size=2, replace=False)]
        tight = rng.random() < 0.15
        shape = float(rng.choice([120.0, 150.0, 170.0, 172.0, 200.0, 400.0])) if tight else float(dc.loguniform(rng, 0.2, 60))
        span = float(h.coalescent_breaks[-1]) if len(ps) > 1 else 1.0      # mass spread over the epochs
        rate = float(shape / (span * dc.loguniform(rng, 0.05, 5))) if span > 0 else 1.0
        for (a, b), src in [(picks[0], "pool"), (picks[1], "pool"), ((shape, rate), "adapted")]:
            q = gamma_query(h, ps, tb, mode, a, b, src)
            q["hist"] = hi
            queries.append((q, h))
    order = rng.permutation(len(queries))
    return [queries[k] for k in order]


def quad_moments(h, shape, rate):
    """mean and variance of to_natural(X), X ~ Gamma(shape, rate), by numerical quadrature per epoch"""
    import warnings
    import scipy.integrate as si
    import scipy.stats as st
    warnings.simplefilter("ignore", si.IntegrationWarning)      # slow convergence is reflected in the tolerance, not in the log
    cb = list(h.coalescent_breaks) + [np.inf]
    dist = st.gamma(a=shape, scale=1 / rate)
    m1 = m2 = 0.0
    for k in range(len(cb) - 1):
        t0, n2 = h.time_breaks[k], h.population_size[k]
        f = lambda x, p: (t0 + n2 * (x - cb[k])) ** p * dist.pdf(x)   # noqa: E731
        lo, hi = cb[k], cb[k + 1]
        if not np.isfinite(hi):
            hi = max(lo, dist.ppf(1 - 1e-15)) * 1.5 + 1e-300
        pts = [p for p in [dist.mean(), dist.ppf(0.01), dist.ppf(0.99)] if lo < p < hi]
        m1 += si.quad(f, lo, hi, args=(1,), points=pts or None, limit=200, epsabs=0, epsrel=1e-11)[0]
        m2 += si.quad(f, lo, hi, args=(2,), points=pts or None, limit=200, epsabs=0, epsrel=1e-11)[0]
    return m1, m2 - m1 * m1


def stage_gamma(ctx, res, stats, n_hist, batch):
    rng = ctx.rng(6)
    seq = gamma_sequence(rng, n_hist)
    cases, hs = [q for q, _ in seq], [h for _, h in seq]
    users = {}
    for c in cases:
        users.setdefault((c["shape"], c["rate"]), set()).add(c["hist"])
    stats["gamma_queries"] = len(cases)
    stats["gamma_histories"] = n_hist
    stats["gamma_keys_reused_across_histories"] = sum(1 for v in users.values() if len(v) >= 2)
    stats["gamma_max_histories_per_key"] = max((len(v) for v in users.values()), default=0)
    ids = [batch.add(dc.enc_gamma, c, "f") for c in cases]
    yield
    # the real calls below happen in the interleaved order of `seq`, all in this one process
    for pos, (i, c, h) in enumerate(zip(ids, cases, hs)):
        res.evaluations += 1
        replay = dict(kind="gamma", ps=[f2h(x) for x in c["ps"]], tb=[f2h(x) for x in c["tb"]],
                      shape=f2h(c["shape"]), rate=f2h(c["rate"]), source=c["source"],
                      asked_before=[dict(ps=[f2h(x) for x in p["ps"]], tb=[f2h(x) for x in p["tb"]]) for p in cases[:pos]
                                    if (p["shape"], p["rate"]) == (c["shape"], c["rate"]) and p["hist"] != c["hist"]][:3])
        stats["gamma_overflow_inputs"] += int(c["overflow"])
        try:
            with np.errstate(all="ignore"):
                got = h.gamma_to_natural(np.float64(c["shape"]), np.float64(c["rate"]))     # numpy scalars, as prior.py passes them
            raised = None
        except Exception as e:  # noqa: BLE001
            got, raised = np.array([np.nan, np.nan]), f"{type(e).__name__}: {e}"
        try:
            with np.errstate(all="ignore"):
                h.gamma_to_natural(c["shape"], c["rate"])                                    # python floats
        except OverflowError as e:
            raised = raised or f"OverflowError: {e}"
        except Exception as e:  # noqa: BLE001
            raised = raised or f"{type(e).__name__}: {e}"
        bad_value = not (np.all(np.isfinite(got)) and got[0] > 0 and got[1] > 0)
        if raised or bad_value:
            if c["overflow"]:
                # Gamma(shape+2) or rate**(shape+2) (or C) leaves the double range although C*Gamma(s+k)/rate**(s+k) is harmless
                res.violations.append(Violation(
                    "gamma-to-natural-overflow",
                    f"gamma_to_natural(shape={c['shape']}, rate={c['rate']!r}) -> {raised or list(got)} (Gamma(shape+2)={c['gam'][2]!r}, "
                    f"rate**(shape+2)={c['pw'][2]!r}, C={c['C']!r})", replay))
            else:
                res.violations.append(Violation(
                    "gamma-to-natural-degenerate", f"gamma_to_natural(shape={c['shape']}, rate={c['rate']!r}) -> {raised or list(got)} "
                    f"with all special-function values in range", replay))
            if raised:
                continue
        m = batch.get(i)
        if m is None:
            res.corr_failures.append(Violation("model-rejects-gamma-case", "bad-op on gamma case", replay, "B"))
            continue
        # B: same arithmetic on the same special-function values; va = sum - mn^2 cancels, so compare
        # against the conditioning 1 + shape_out (relative error of va is amplified by mn^2/va = new shape)
        cond = 1.0 + abs(float(got[0]))
        for j, name in enumerate(["shape", "rate"]):
            a, b = float(m["g"][j]), float(got[j])
            ok = (np.isnan(a) and np.isnan(b)) or abs(a - b) <= 1e-13 * cond * 64 * max(abs(a), abs(b))
            stats["gamma_worst_rel"] = max(stats["gamma_worst_rel"],
                                           0.0 if a == b else abs(a - b) / max(abs(a), abs(b)) / cond)
            if not ok:
                res.corr_failures.append(Violation(
                    f"gamma-model-differs-{name}", f"gamma_to_natural new_{name} = {b!r}, Lean model on the same scipy "
                    f"values gives {a!r}", replay, "B"))
                break
        if bad_value:
            continue
        # C: statement. constant size -> exact rescaled gamma; otherwise moments by quadrature
        if len(c["ps"]) == 1:
            want = (c["shape"], c["rate"] / (2 * c["ps"][0]))
            if not (abs(got[0] - want[0]) <= 1e-7 * cond * want[0] and abs(got[1] - want[1]) <= 1e-7 * cond * want[1]):
                res.violations.append(Violation(
                    "gamma-constant-size-not-rescaled", f"gamma_to_natural({c['shape']}, {c['rate']}) with constant 2N="
                    f"{2 * c['ps'][0]} returned {list(got)}, expected {list(want)}", replay))
            stats["gamma_const"] += 1
        else:
            if np.all(np.isfinite(got)) and got[0] > 0 and got[1] > 0 and got[0] < 1e4:
                mn, va = quad_moments(h, c["shape"], c["rate"])
                gm, gv = got[0] / got[1], got[0] / got[1] ** 2
                stats["gamma_quad"] += 1
                if not (abs(gm - mn) <= 1e-6 * abs(mn) and abs(gv - va) <= 1e-5 * cond * abs(va)):
                    res.violations.append(Violation(
                        "gamma-moments-mismatch", f"gamma_to_natural mean/var {gm!r}/{gv!r} vs quadrature {mn!r}/{va!r}", replay))
                res.nontrivial.add(common.canon_key(replay))
            else:
                stats["gamma_degenerate"] += 1
    if cases:
        res.sample(dict(kind="gamma", shape=cases[0]["shape"], rate=cases[0]["rate"], epochs=len(cases[0]["ps"])))


def grid_sequence(ts, demogs):
    """make_parameter_grid of ONE MixturePrior under several demographies, in the given order; -> list of findings"""
    import tsdate.prior as tp
    from tsdate.demography import PopulationSizeHistory
    mp = tp.MixturePrior(ts, False, None, "gamma", False, False)
    alpha = mp.prior_params[:, tp.PriorParams.field_index("alpha")]
    beta = mp.prior_params[:, tp.PriorParams.field_index("beta")]
    bad, rows = [], 0
    for ps, tb in demogs:
        h = PopulationSizeHistory(np.array(ps, dtype=float), np.array(tb, dtype=float))
        with np.errstate(all="ignore"):
            grid = mp.make_parameter_grid(h)
        nodes = [int(u) for u in grid.nonfixed_nodes]
        for k, u in enumerate(nodes):
            got = np.asarray(grid[u], dtype=float)
            a, b = float(alpha[u]), float(beta[u])
            if not (np.isfinite(a) and np.isfinite(b) and a > 0 and b > 0 and a < 100):
                continue
            rows += 1
            if len(ps) == 1:
                want = (a, b / (2 * ps[0]))
                if not (abs(got[0] - want[0]) <= 1e-7 * (1 + a) * want[0] and abs(got[1] - want[1]) <= 1e-7 * (1 + a) * want[1]):
                    bad.append(("grid-constant-size-not-rescaled",
                                f"node {u}: prior gamma ({a!r}, {b!r}) under constant N={ps[0]!r} became {list(got)}, expected {list(want)}"))
                    break
            elif k < 3:
                mn, va = quad_moments(h, a, b)
                gm, gv = got[0] / got[1], got[0] / got[1] ** 2
                if not (abs(gm - mn) <= 1e-6 * abs(mn) and abs(gv - va) <= 1e-5 * (1 + a) * abs(va)):
                    bad.append(("grid-moments-mismatch",
                                f"node {u}: prior gamma ({a!r}, {b!r}) under sizes {ps} / breaks {tb}: grid mean/var {gm!r}/{gv!r}, "
                                f"quadrature {mn!r}/{va!r}"))
                    break
    return bad, rows


def stage_grid(ctx, res, stats, n_ts):
    """`MixturePrior.make_parameter_grid` (the caller of gamma_to_natural in the pipeline) for one tree sequence under several
    demographies in one process, in random order: every grid must be the one of ITS demography"""
    from .. import gen
    rng = ctx.rng(8)
    for _ in range(n_ts):
        ts, info = gen.sim_ts(rng, n=int(rng.integers(3, 8)), trees=int(rng.choice([1, 2, 4])))
        demogs = [([float(dc.loguniform(rng, 0.5, 1e5))], []), ([float(dc.loguniform(rng, 0.5, 1e5))], [])]
        ps, tb, _ = dc.gen_history(rng, wide=False)
        if len(ps) > 1:
            demogs.append((ps[:4], tb[:3]))
        demogs = [demogs[k] for k in rng.permutation(len(demogs))]
        res.evaluations += 1
        replay = dict(kind="grid", ts=gen.ts_to_jsonable(ts), demographies=[dict(ps=[f2h(x) for x in p], tb=[f2h(x) for x in t]) for p, t in demogs])
        try:
            bad, rows = grid_sequence(ts, demogs)
        except Exception as e:  # noqa: BLE001
            bad, rows = [("grid-raises", f"make_parameter_grid raised {type(e).__name__}: {str(e)[:120]}")], 0
        stats["grid_rows"] += rows
        stats["grid_sequences"] += 1
        for kind, what in bad:
            res.violations.append(Violation(kind, f"make_parameter_grid under {len(demogs)} demographies on one tree sequence: {what}", replay))
        if not bad:
            res.nontrivial.add(common.canon_key(replay))


# ----------------------------------------------------------------------------- C

def oracle_history(res, stats, c):
    """the statement of C17 on the real class (independent of the Lean model); exceptions are data"""
    try:
        _oracle_history(res, stats, c)
    except Exception as e:  # noqa: BLE001
        res.violations.append(Violation(
            "transform-raises", f"PopulationSizeHistory raised {type(e).__name__} on a valid history / non-negative times: {str(e)[:100]}",
            dict(kind="hist", ps=[f2h(x) for x in c["ps"]], tb=[f2h(x) for x in c["tb"]],
                 ts=[f2h(x) for x in c["ts"]], cs=[f2h(x) for x in c["cs"]])))


def _oracle_history(res, stats, c):
    h = dc.make_history(c["ps"], c["tb"])
    ts, cs = np.array(c["ts"]), np.array(c["cs"])
    replay = dict(kind="hist", ps=[f2h(x) for x in c["ps"]], tb=[f2h(x) for x in c["tb"]],
                  ts=[f2h(x) for x in c["ts"]], cs=[f2h(x) for x in c["cs"]])
    tc = h.to_coalescent_timescale(ts)
    tn = h.to_natural_timescale(cs)
    V = lambda kind, what: res.violations.append(Violation(kind, what, replay))   # noqa: E731
    # integral of 1/(2N): direct exact sum over epochs with 2N = 2*population_size as given by the user
    n2 = [2 * Fraction(x) for x in c["ps"]]
    starts = [Fraction(0)] + [Fraction(x) for x in c["tb"]]
    for t, y in zip(ts, tc):
        ex = dc.exact_integral(starts, n2, t)
        tol = TOL_FACTOR * dc.err_coal(h, t)
        if abs(float(Fraction(float(y)) - ex)) > tol:
            at_break = float(t) in set(c["tb"])
            V("integral-mismatch-at-break" if at_break else "integral-mismatch",
              f"to_coalescent_timescale({t!r}) = {float(y)!r}, integral of 1/(2N) = {float(ex)!r}")
            break
    # round trips
    if np.any(tc < 0) or np.any(tn < 0):
        V("negative-image", "a time transform maps a non-negative time to a negative one")
        return
    back = h.to_natural_timescale(tc)
    for t, y, z in zip(ts, tc, back):
        tol = TOL_FACTOR * dc.tol_roundtrip_nat(h, t, y)
        stats["rt_points"] += 1
        stats["rt_tight"] += int(tol <= 1e-9 * abs(t) or t == 0)
        if abs(z - t) > tol:
            V("roundtrip-natural-fails", f"to_natural(to_coalescent({t!r})) = {float(z)!r} (tolerance {tol:.3g})")
            break
    fwd = h.to_coalescent_timescale(tn)
    for cv, y, z in zip(cs, tn, fwd):
        tol = TOL_FACTOR * dc.tol_roundtrip_coal(h, cv, y)
        if abs(z - cv) > tol:
            V("roundtrip-coalescent-fails", f"to_coalescent(to_natural({cv!r})) = {float(z)!r} (tolerance {tol:.3g})")
            break
    # monotone (inputs are sorted and distinct); strictness can be lost to rounding, order cannot
    e1 = np.array([dc.err_coal(h, t) for t in ts])
    e2 = np.array([dc.err_nat(h, x) for x in cs])
    if np.any(np.diff(tc) < -TOL_FACTOR * (e1[1:] + e1[:-1])) or np.any(np.diff(tn) < -TOL_FACTOR * (e2[1:] + e2[:-1])):
        V("not-monotone", "a time transform reverses the order of two times by more than rounding")
    stats["order_reversed_within_rounding"] = stats.get("order_reversed_within_rounding", 0) + int(
        np.sum(np.diff(tc) < 0) + np.sum(np.diff(tn) < 0))
    # fixes 0 exactly
    z = np.array([0.0])
    if h.to_coalescent_timescale(z)[0] != 0.0 or h.to_natural_timescale(z)[0] != 0.0:
        V("zero-not-fixed", "a time transform does not map 0 to 0")
    # continuity at breaks: value just below the break is within rounding of the value at the break
    for b in c["tb"]:
        lo = np.nextafter(b, 0.0)
        y = h.to_coalescent_timescale(np.array([lo, b]))
        tol = TOL_FACTOR * (dc.err_coal(h, lo) + dc.err_coal(h, b)) + (b - lo) / min(h.population_size)
        if abs(y[1] - y[0]) > tol:
            V("jump-at-break", f"to_coalescent jumps by {abs(y[1] - y[0]):.3g} across break {b!r}")
            break
    # as_dict rebuilds an identical history
    from tsdate.demography import PopulationSizeHistory
    h2 = PopulationSizeHistory(**h.as_dict())
    same = all(dc.bits_equal(list(getattr(h, a)), list(getattr(h2, a)))
               for a in ("time_breaks", "population_size", "coalescent_breaks", "coalescent_rate"))
    if not same:
        V("asdict-not-identical", "PopulationSizeHistory(**h.as_dict()) differs from h")


def run(ctx):
    res = Result()
    stats = dict(epochs={}, modes={}, times=0, hyp_initOk=0, worst_fwd_ratio=0.0, ctm_pre_true=0, ctm_pre_false=0,
                 invalid={}, gamma_worst_rel=0.0, gamma_const=0, gamma_quad=0, gamma_degenerate=0, gamma_overflow_inputs=0, grid_rows=0, grid_sequences=0,
                 rt_points=0, rt_tight=0)
    cases = dc.make_cases(ctx, ctx.n(250, 5000))
    batch = dc.Batch()
    # each stage is a generator: first half queues its cases, second half (after the single driver run) compares
    stages = [stage_b_hist(ctx, res, stats, cases, batch), stage_b_ctm(ctx, res, stats, ctx.n(120, 2000), batch),
              stage_b_invalid(ctx, res, stats, ctx.n(40, 400), batch), stage_gamma(ctx, res, stats, ctx.n(30, 300), batch)]
    for g in stages:
        next(g)
    batch.run()
    for g in stages:
        for _ in g:
            pass
    for c in cases:
        oracle_history(res, stats, c)
    stage_grid(ctx, res, stats, ctx.n(12, 150))
    res.rule = ("B: random histories (1-8 epochs; sizes and breaks log-uniform over 1e-3..1e9, plus moderate, integer and "
                "equal-size families) x time vectors containing 0, every exact break point and its two float neighbours, "
                "points inside every epoch and far beyond the last break; Lean model at Float compared bit-for-bit with the "
                "real class (stored arrays, both maps, as_dict), at Rat within 16x the rounding scale of the formula; the "
                "static method on free inputs incl. each violated assertion; invalid constructor inputs; gamma_to_natural as a SEQUENCE: a "
                "pool of (shape, rate) pairs (incl. the defaults 1, 1) shared by all histories of the run plus one adapted pair per "
                "history, queried in randomly interleaved order in one process, every answer compared with the model's answer for "
                "that history on the same scipy values; make_parameter_grid of one tree sequence under 2-3 demographies in random "
                "order. C: statement on the real class. Non-trivial = history with >= 2 epochs (breaks "
                "exercised) or multi-epoch gamma case; distinct by canonical hash of the input.")
    n_invalid = sum(stats["invalid"].values())
    stats["hyp_initOk_rate"] = stats["hyp_initOk"] / max(1, stats["hyp_initOk"] + n_invalid)   # over all constructor inputs generated
    res.extra = dict(input_distribution=stats)
    return res


def search(ctx):
    res = Result()
    stats = dict(rt_points=0, rt_tight=0)
    for c in dc.make_cases(ctx, ctx.n(100, 300), stream=7):
        res.evaluations += 1
        oracle_history(res, stats, c)
    return res


def replay(ctx, payload):
    d = payload.get("input") or payload.get("correspondence_input")
    from ..common import h2f
    if d["kind"] in ("hist", "invalid"):
        c = dict(ps=[h2f(x) for x in d["ps"]], tb=[h2f(x) for x in d["tb"]],
                 ts=[h2f(x) for x in d.get("ts", ["0000000000000000"])], cs=[h2f(x) for x in d.get("cs", ["0000000000000000"])],
                 mode="replay")
        print("population_size:", c["ps"], "time_breaks:", c["tb"])
        try:
            h = dc.make_history(c["ps"], c["tb"])
        except Exception as e:  # noqa: BLE001
            print("implementation: constructor raised", type(e).__name__, e)
            out = dc.run_driver(dc.enc_hist(0, c, "f"), {0: "f"})
            print("model         :", "bad-op" if out.get(0) is None else "accepts")
            return d["kind"] == "invalid" and type(e) is ValueError and out.get(0) is None
        print("implementation: to_coalescent", list(h.to_coalescent_timescale(np.array(c["ts"]))))
        print("implementation: to_natural   ", list(h.to_natural_timescale(np.array(c["cs"]))))
        out = dc.run_driver(dc.enc_hist(0, c, "f"), {0: "f"})
        print("model (Float) :", out.get(0))
        r = Result()
        st = dict(epochs={}, modes={}, times=0, hyp_initOk=0, worst_fwd_ratio=0.0, rt_points=0, rt_tight=0)
        for _ in stage_b_hist(ctx, r, st, [c]):
            pass
        oracle_history(r, st, c)
        for v in r.corr_failures + r.violations:
            print("  ", v.stage, v.kind, v.what)
        return not (r.corr_failures or r.violations)
    if d["kind"] == "ctm":
        from tsdate.demography import PopulationSizeHistory as P
        c = dict(bs=[h2f(x) for x in d["bs"]], ms=[h2f(x) for x in d["ms"]], ts=[h2f(x) for x in d["ts"]])
        try:
            r = P._change_time_measure(np.array(c["ts"]), np.array(c["bs"]), np.array(c["ms"]))
            print("implementation:", [list(x) for x in r])
        except Exception as e:  # noqa: BLE001
            r = None
            print("implementation raised", type(e).__name__)
        out = dc.run_driver(dc.enc_ctm(0, c, "f"), {0: "f"})
        print("model         :", out.get(0))
        m = out.get(0)
        return (r is None) == (m is None) and (r is None or all(dc.bits_equal(m[t], list(x)) for t, x in zip(("nt", "nb", "nm"), r)))
    if d["kind"] == "grid":
        from .. import gen
        ts = gen.ts_from_jsonable(d["ts"])
        demogs = [([h2f(x) for x in q["ps"]], [h2f(x) for x in q["tb"]]) for q in d["demographies"]]
        print("demographies, in the order queried:", demogs)
        bad, rows = grid_sequence(ts, demogs)
        print("rows checked:", rows, "violations:", bad)
        return not bad
    if d["kind"] == "gamma":
        shape, rate = h2f(d["shape"]), h2f(d["rate"])
        # replay the sequence: the histories that were asked for the same (shape, rate) earlier in the run come first
        for k, p in enumerate(d.get("asked_before", [])):
            hp = dc.make_history([h2f(x) for x in p["ps"]], [h2f(x) for x in p["tb"]])
            with np.errstate(all="ignore"):
                print(f"earlier history {k} (2N = {list(hp.population_size)}): gamma_to_natural ->", list(hp.gamma_to_natural(np.float64(shape), np.float64(rate))))
        h = dc.make_history([h2f(x) for x in d["ps"]], [h2f(x) for x in d["tb"]])
        try:
            with np.errstate(all="ignore"):
                got = h.gamma_to_natural(np.float64(shape), np.float64(rate))
        except Exception as e:  # noqa: BLE001
            print("implementation: raised", type(e).__name__, e)
            return False
        print(f"implementation (2N = {list(h.population_size)}): gamma_to_natural({shape}, {rate}) ->", list(got))
        if not np.all(np.isfinite(got)):
            return False
        if len(d["ps"]) > 1:
            mn, va = quad_moments(h, shape, rate)
            print("quadrature mean/var:", mn, va, " returned gamma mean/var:", got[0] / got[1], got[0] / got[1] ** 2)
            return bool(abs(got[0] / got[1] - mn) <= 1e-6 * abs(mn))
        want = (shape, rate / float(h.population_size[0]))
        print("constant size: expected", want)
        return bool(abs(got[0] - want[0]) <= 1e-6 * want[0] and abs(got[1] - want[1]) <= 1e-6 * want[1])
    return False
