"""
C32 — time metadata writing follows the set_metadata policy.

A  theorems in Props/C32 over the model of `set_time_metadata` (any table, any validator).
B  exhaustive correspondence: every abstract case (set_metadata x schema/content class x table x
   method) is built as a real tskit table, dated with the real `tsdate.date`, and the recorded
   pre/post state of each `set_time_metadata` call is compared row by row with the Lean model run on
   the same call (Driver/Metadata.lean); plus random JSON schemas / rows.
C  the statement of C32 evaluated directly on the pre/post tables with tskit's own validator.
"""

import json

import numpy as np

from .. import common, dating, gen, metadata_corr as mc
from ..common import Result, Violation

META = dict(
    level='Lean theorems over a model of EstimationMethod.set_time_metadata, for every table (any rows, any mixture of empty/non-empty cells), every schema validator and every value type: set_metadata=False leaves the table identical; None merges mn/vr into every row keeping all other fields when the schema validates the merged rows, installs the default schema on a blank table, otherwise leaves the table identical and takes the warning exit; True always writes (merge, or clear + default schema); the result is always one of untouched / merged / replaced (no partial writes); whenever written, row i carries mean[i], var[i]. Tie: exhaustive over set_metadata x 24 schema/content classes x node/mutation table x 3 methods against real date() calls, decoded row by row, plus random JSON schemas. Outside: tskit codecs/jsonschema (contract, exercised by the tie); rows that do not decode to objects; methods that yield no variance write nothing even with set_metadata=True (stated as a theorem, reported as scope).',
    note='Lean kernel + {propext, Classical.choice, Quot.sound}; tskit metadata codecs and jsonschema by contract; correspondence exhaustive on the abstract lattice, sampled on random schemas',
    technique='refinement of the code path to a 4-way spec + exhaustive model/implementation correspondence on the abstract domain',
    ref='§3 C32',
)
LEAN_PROPS = ["TsdateVerif.Props.C32"]
LEAN_BUILD = ["TsdateVerif.Model.Proto", "TsdateVerif.Model.Metadata"]
ASSUMPTIONS = [
    "tskit's metadata codecs (JSON, struct) and jsonschema validation are taken by contract; the abstract validator "
    "`Spec` used to execute the model is compared with them on every case",
    "metadata rows decode to JSON objects (a row decoding to a list/number makes dict.update raise AttributeError; outside C32)",
    "the default schema validates {mn, vr} with float values (checked on every run)",
]
TRUSTED = ["harness/metadata_corr.py canonical forms (value tokens, cells) and the Recorder wrapped around set_time_metadata"]


# ----------------------------------------------------------------------------- inputs

def base_ts(rng):
    """A tiny tree sequence: contemporaneous samples, >= 2 mutations, one mutation per site."""
    for _ in range(200):
        ts, info = gen.sim_ts(rng, n=int(rng.integers(2, 5)), trees=int(rng.choice([1, 2, 3])),
                              muts_per_edge=float(rng.choice([0.5, 1.0])), Ne=100.0, L=1e3)
        if not (2 <= ts.num_mutations <= 10):
            continue
        if any(len(s.mutations) != 1 for s in ts.sites()):
            continue
        ts = gen.ts_from_jsonable(gen.ts_to_jsonable(ts))
        return ts, info
    raise RuntimeError("could not draw a base tree sequence")


def method_kw(method, info):
    if method == "variational_gamma":
        return dict(mutation_rate=info["mu"], rescaling_intervals=0, max_iterations=2)
    return dict(mutation_rate=info["mu"], population_size=info["Ne"])


def random_class(rng, idx):
    """A random JSON object schema and rows written as raw JSON (so rows may or may not validate)."""
    keys = ["name", "k", "mn", "vr", "x"]
    tys = {"name": "string", "k": "integer", "mn": str(rng.choice(["number", "number", "string"])),
           "vr": "number", "x": "string"}
    props = {k: {"type": tys[k]} for k in keys if rng.random() < 0.5}
    sch = {"codec": "json", "type": "object", "properties": props}
    if rng.random() < 0.4:
        sch["additionalProperties"] = False
    if props and rng.random() < 0.5:
        sch["required"] = [k for k in props if rng.random() < 0.5]
    vals = {"name": lambda i: f"r{i}", "k": lambda i: i, "mn": lambda i: -1.0 - i, "vr": lambda i: -2.5, "x": lambda i: "y"}
    pat = rng.random(size=(64, len(keys))) < 0.5
    emp = rng.random(size=64) < (0.3 if rng.random() < 0.5 else 0.0)
    all_empty = rng.random() < 0.15

    def maker(i, n):
        if all_empty or emp[i % 64]:
            return None
        return json.dumps({k: vals[k](i) for j, k in enumerate(keys) if pat[i % 64, j]}, sort_keys=True).encode()

    return (f"random-json-{idx}", sch, maker)


def materialise(ts, ncls, mcls):
    t = ts.dump_tables()
    mc.apply_class(t, "nodes", ncls)
    mc.apply_class(t, "mutations", mcls)
    return t.tree_sequence()


def replay_input(ts_in, sm, method, kw):
    """Self-contained description of one date() call with its metadata."""
    tabs = {}
    for tname in ("nodes", "mutations"):
        sch, rows = mc.snapshot(getattr(ts_in.tables, tname))
        tabs[tname] = dict(schema=mc.schema_dict(sch), rows=[b.hex() for b in rows])
    return dict(kind="date-metadata", ts=gen.ts_to_jsonable(ts_in), tables=tabs, set_metadata=sm, method=method, kw=kw)


def ts_from_replay(d):
    import tskit
    ts = gen.ts_from_jsonable(d["ts"])
    t = ts.dump_tables()
    for tname in ("nodes", "mutations"):
        tb = getattr(t, tname)
        tb.metadata_schema = tskit.MetadataSchema(d["tables"][tname]["schema"])
        tb.packset_metadata([bytes.fromhex(h) for h in d["tables"][tname]["rows"]])
    return t.tree_sequence()


# ----------------------------------------------------------------------------- the oracle (stage C)

def _same_float(a, b):
    a, b = float(a), float(b)
    return a == b or (a != a and b != b)


def tskit_can_encode(schema, rows, mean, var):
    """"the existing schema can encode them" decided by tskit itself (not by the model)."""
    import tskit
    if schema.schema is None:
        return False
    anyb = any(len(b) for b in rows)
    try:
        for b, mn, vr in zip(rows, mean, var):
            d = schema.decode_row(b) if anyb else {}
            d.update((("mn", mn), ("vr", vr)))
            schema.validate_and_encode_row(d)
    except (tskit.MetadataEncodingError, tskit.MetadataValidationError):
        return False
    return True


def oracle(call):
    """The statement of C32 on one table. Returns (class, [(kind, what)])."""
    tname, sm = call["table"], call["sm"]
    pre_s, pre_r = call["pre"]
    post_s, post_r = call["post"]
    same = (pre_s == post_s) and (pre_r == post_r)
    smn = mc.SM[sm]
    bad = []
    if sm is False:
        if not same:
            bad.append((f"{tname}-set_metadata-false-touched", "set_metadata=False changed metadata or schema"))
        return "false", bad
    if call["var"] is None:
        # the method gives no variance for this table: outside the policy (see Props/C32)
        if not same:
            bad.append((f"{tname}-no-variance-but-touched", "no variance for this table, yet metadata/schema changed"))
        return "no-variance", bad
    mean, var = call["mean"], call["var"]
    n = len(pre_r)
    can = tskit_can_encode(pre_s, pre_r, mean, var)
    blank = pre_s.schema is None and not any(len(b) for b in pre_r)
    dflt = mc.default_schema_for(tname)

    def rows_carry(schema, rows, keep_from=None):
        probs = []
        if len(rows) != n:
            probs.append(("row-count-changed", f"{len(rows)} rows, expected {n}"))
            return probs
        anyb = any(len(b) for b in pre_r)
        for i, b in enumerate(rows):
            if len(b) == 0:
                probs.append(("row-missing-mn-vr", f"row {i} is empty after writing"))
                break
            d = schema.decode_row(b)
            if not (isinstance(d, dict) and "mn" in d and "vr" in d and _same_float(d["mn"], mean[i]) and _same_float(d["vr"], var[i])):
                probs.append(("row-missing-mn-vr", f"row {i} does not carry mn/vr of this row: {str(d)[:80]}"))
                break
            rest = {k: v for k, v in d.items() if k not in ("mn", "vr")}
            if keep_from is not None:
                old = keep_from.decode_row(pre_r[i]) if anyb else {}
                old = {k: v for k, v in old.items() if k not in ("mn", "vr")}
                if mc.cv(rest) != mc.cv(old):
                    probs.append(("other-field-lost", f"row {i}: other fields {str(old)[:60]} became {str(rest)[:60]}"))
                    break
            elif rest:
                probs.append(("replaced-row-has-extra-fields", f"row {i}: {str(rest)[:60]}"))
                break
        return probs

    if can:
        cls = "compatible"
        if post_s != pre_s:
            bad.append((f"{tname}-{smn}-compatible-schema-changed", "schema could encode mn/vr but was replaced"))
        else:
            for k, w in rows_carry(post_s, post_r, keep_from=pre_s):
                bad.append((f"{tname}-{smn}-compatible-{k}", w))
        if call.get("warned"):
            bad.append((f"{tname}-{smn}-compatible-warned", "warning logged although metadata could be written"))
    elif blank or sm is True:
        cls = "blank" if blank else "incompatible-forced"
        if post_s != dflt:
            bad.append((f"{tname}-{smn}-{cls}-default-schema-not-installed", "default schema not installed"))
        else:
            for k, w in rows_carry(post_s, post_r, keep_from=None):
                bad.append((f"{tname}-{smn}-{cls}-{k}", w))
    else:
        cls = "incompatible-skipped"
        if not same:
            bad.append((f"{tname}-auto-incompatible-overwritten",
                        "set_metadata=None changed a table whose schema/metadata cannot take mn/vr"))
        if not call.get("warned"):
            bad.append((f"{tname}-auto-incompatible-no-warning", "table skipped without a warning"))
    return cls, bad


# ----------------------------------------------------------------------------- one real call

def one_call(res, stats, pending, cid, ts_in, sm, method, kw, ids, label):
    """Date ts_in for real; record both set_time_metadata calls; queue the model cases."""
    dating.quiet()
    rp = replay_input(ts_in, sm, method, kw)
    with mc.Recorder() as rec:
        r = dating.run_date(ts_in, method=method, set_metadata=sm, **kw)
    res.evaluations += 1
    stats["methods"][method] = stats["methods"].get(method, 0) + 1
    if not r["ok"]:
        stats["raised"][r["exc"]] = stats["raised"].get(r["exc"], 0) + 1
        kind = "date-raised-in-set_time_metadata" if any(c["raised"] for c in rec.calls) else None
        if kind:
            res.violations.append(Violation(kind, f"{label}: date() raised {r['exc']}: {r['msg'][:120]}", rp))
        return
    out = r["out"]
    if len(rec.calls) != 2 or [c["table"] for c in rec.calls] != ["nodes", "mutations"]:
        res.corr_failures.append(Violation("set_time_metadata-call-shape",
                                           f"{label}: expected one call per table, saw {[c['table'] for c in rec.calls]}", rp, "B"))
        return
    for call in rec.calls:
        tname = call["table"]
        stats["has_variance"].setdefault(method, {}).setdefault(tname, set()).add(call["var"] is not None)
        # hypothesis of written_everywhere: the code's own assert
        if call["var"] is not None:
            stats["hyp_len_total"] += 1
            stats["hyp_len_ok"] += int(len(call["mean"]) == len(call["var"]) == len(call["pre"][1]))
        # ---- C
        cls, bad = oracle(call)
        stats["oracle_classes"][cls] = stats["oracle_classes"].get(cls, 0) + 1
        if sm is True and call["var"] is None:
            stats["set_metadata_true_but_no_variance"] += 1
        for kind, what in bad:
            res.violations.append(Violation(kind, f"{label} [{tname}]: {what}", rp))
        # ---- end to end: returned ts carries exactly what set_time_metadata left
        otab = getattr(out.tables, tname)
        o_s, o_r = mc.snapshot(otab)
        comparable = tname == "nodes" or (
            np.array_equal(out.mutations_site, ts_in.mutations_site) and np.array_equal(out.mutations_node, ts_in.mutations_node))
        if comparable and (o_s != call["post"][0] or o_r != call["post"][1]):
            res.violations.append(Violation(f"{tname}-returned-metadata-differs-from-written",
                                            f"{label} [{tname}]: returned table differs from what set_time_metadata wrote", rp))
        # ---- B: queue for the model
        pre_s, pre_r = call["pre"]
        post_s, post_r = call["post"]
        try:
            cells = mc.decode_cells(pre_s, pre_r)
            pcells = mc.decode_cells(post_s, post_r)
        except Exception as e:  # noqa: BLE001
            stats["undecodable"] += 1
            continue
        if not (mc.safe_keys(cells) and mc.safe_keys(pcells)):
            stats["undecodable"] += 1
            continue
        pre_id = ids[tname]
        spec = mc.spec_of(mc.schema_dict(pre_s), pre_id)
        key = f"{cid}.{tname}"
        same = (pre_s == post_s) and (pre_r == post_r)
        if call.get("warned"):
            impl_out = "warned"
        elif same:
            impl_out = "untouched"
        elif post_s == pre_s and pre_s.schema is not None:
            impl_out = "merged"
        else:
            impl_out = "replaced"
        pending[key] = dict(text=mc.encode_case(key, sm, spec, cells, call["mean"], call["var"]),
                            impl=dict(outcome=impl_out, schema=mc.schema_id(post_s, pre_s, pre_id, tname), cells=pcells),
                            replay=rp, label=f"{label} [{tname}]", nontrivial=impl_out != "untouched",
                            nkey=(label, tname))
        stats["impl_outcomes"][impl_out] = stats["impl_outcomes"].get(impl_out, 0) + 1
    if any(pending.get(f"{cid}.{t}", {}).get("nontrivial") for t in ("nodes", "mutations")):
        res.sample(dict(case=label, method=method, set_metadata=str(sm), nodes=ts_in.num_nodes, mutations=ts_in.num_mutations,
                        outcome_nodes=pending.get(f"{cid}.nodes", {}).get("impl", {}).get("outcome"),
                        outcome_mutations=pending.get(f"{cid}.mutations", {}).get("impl", {}).get("outcome")))


def compare_with_model(res, pending, stats):
    texts = {k: v["text"] for k, v in pending.items()}
    for m in stats["has_variance"]:
        texts[f"MV.{m}"] = f"case MV.{m}\nmethodvar {m}\nend\n"
    replies = mc.run_model(texts)
    # which tables get a variance from which method: the model's claim vs what the real calls were given
    for m, obs in stats["has_variance"].items():
        want = " ".join(f"{k}={'1' if obs.get(t) == {True} else '0' if obs.get(t) == {False} else '?'}"
                        for k, t in (("nodeVar", "nodes"), ("mutVar", "mutations")))
        got = replies.get(f"MV.{m}")
        got = got if isinstance(got, str) else None
        if got != want:
            res.corr_failures.append(Violation("method-variance-wiring-differs", f"{m}: real calls had variance {want}, model says {got}",
                                               dict(kind="methodvar", method=m), "B"))
    stats["has_variance"] = {m: {t: sorted(v) for t, v in d.items()} for m, d in stats["has_variance"].items()}
    for key, p in pending.items():
        m = replies.get(key)
        if m is None:
            res.corr_failures.append(Violation("metadata-model-rejected-case", f"{p['label']}: model answered bad-op / nothing",
                                               dict(p["replay"], model_case=p["text"]), "B"))
            continue
        if m != p["impl"] and m["outcome"] == "merged" and p["impl"]["outcome"] == "untouched" \
                and m["schema"] == p["impl"]["schema"] and m["cells"] == p["impl"]["cells"]:
            # rewriting identical values leaves identical bytes: "merged" and "untouched" are the same observable table
            stats["merged_with_identical_bytes"] = stats.get("merged_with_identical_bytes", 0) + 1
        elif m != p["impl"]:
            diff = "outcome" if m["outcome"] != p["impl"]["outcome"] else ("schema" if m["schema"] != p["impl"]["schema"] else "rows")
            res.corr_failures.append(Violation(
                "metadata-model-differs",
                f"{p['label']}: set_time_metadata differs from the Lean model in {diff} "
                f"(impl {p['impl']['outcome']}/{p['impl']['schema']}, model {m['outcome']}/{m['schema']})",
                dict(p["replay"], model_case=p["text"], impl=p["impl"], model=m), "B"))
        stats["model_outcomes"][m["outcome"]] = stats["model_outcomes"].get(m["outcome"], 0) + 1
        if p["nontrivial"]:
            res.nontrivial.add(common.canon_key(p["nkey"]))


def check_hd(stats):
    """Hypothesis `hd` of the theorems: the default schemas validate a {mn, vr} object."""
    from tsdate import schemas
    ok = 0
    for s in (schemas.default_node_schema, schemas.default_mutation_schema):
        try:
            s.validate_and_encode_row({"mn": np.float64(1.5), "vr": np.float64(0.25)})
            ok += 1
        except Exception:  # noqa: BLE001
            pass
    stats["hyp_default_schema_admits_mn_vr"] = f"{ok}/2"
    return ok == 2


def new_stats():
    return dict(methods={}, raised={}, oracle_classes={}, impl_outcomes={}, model_outcomes={}, undecodable=0,
                has_variance={}, hyp_len_ok=0, hyp_len_total=0, set_metadata_true_but_no_variance=0, classes=0, pairs=0, random_cases=0, redate_cases=0)


def lattice(ctx, res, stats, pending, rng, all_pairs):
    classes = mc.schema_classes()
    n = len(classes)
    stats["classes"] = n
    ts, info = base_ts(rng)
    shift = int(rng.integers(0, n))
    if all_pairs:
        pairs = [(i, j) for i in range(n) for j in range(n)]
    else:
        pairs = [(i, (7 * i + shift) % n) for i in range(n)]       # a permutation: every class on both tables
    stats["pairs"] += len(pairs)
    for (i, j) in pairs:
        ts_in = materialise(ts, classes[i], classes[j])
        ids = dict(nodes="default" if classes[i][1] == "default" else f"c{i}",
                   mutations="default" if classes[j][1] == "default" else f"c{j}")
        for sm in (False, None, True):
            for method in mc.METHODS:
                cid = f"L{i}_{j}_{mc.SM[sm]}_{method[:3]}"
                label = f"nodes={classes[i][0]} mutations={classes[j][0]} set_metadata={sm} {method}"
                one_call(res, stats, pending, cid, ts_in, sm, method, method_kw(method, info), ids, label)


def redate_sequences(ctx, res, stats, pending, rng):
    """The multi-step route to the default-schema classes: date a tree sequence that has no schemas (tsdate installs its
    default node/mutation schemas), let the user add keys of their own to the rows under those schemas, date again."""
    import tskit
    ts, info = base_ts(rng)
    first = dating.run_date(ts, method="variational_gamma", **method_kw("variational_gamma", info))
    if not first["ok"]:
        stats["raised"][first["exc"]] = stats["raised"].get(first["exc"], 0) + 1
        return
    t = first["out"].dump_tables()
    t.provenances.clear()
    for tname in ("nodes", "mutations"):
        tb = getattr(t, tname)
        schema = tb.metadata_schema
        rows = []
        for i, b in enumerate(tskit.unpack_bytes(tb.metadata, tb.metadata_offset)):
            d = schema.decode_row(bytes(b))
            d.update({"name": f"{tname[0]}{i}", "tags": ["x", i]} if i % 3 else {"rsid": f"rs{i}"})
            if i % 2:
                d["mn"] = -1.0 - i       # an edited estimate: re-dating must overwrite it (and makes the rewrite observable)
            rows.append(schema.validate_and_encode_row(d))
        tb.packset_metadata(rows)
    ts_in = t.tree_sequence()
    ids = dict(nodes="default", mutations="default")
    for sm in (False, None, True):
        for method in mc.METHODS:
            label = f"re-dating a tsdate-dated ts whose rows gained user keys (default schemas) set_metadata={sm} {method}"
            stats["redate_cases"] += 1
            one_call(res, stats, pending, f"S_{mc.SM[sm]}_{method[:3]}", ts_in, sm, method, method_kw(method, info), ids, label)


def randoms(ctx, res, stats, pending, rng, count):
    for c in range(count):
        if c % 8 == 0:
            ts, info = base_ts(rng)
        ncls, mcls = random_class(rng, 2 * c), random_class(rng, 2 * c + 1)
        ts_in = materialise(ts, ncls, mcls)
        sm = [False, None, True][int(rng.integers(0, 3))] if rng.random() < 0.2 else [None, True][int(rng.integers(0, 2))]
        method = str(rng.choice(mc.METHODS, p=[0.7, 0.2, 0.1]))
        ids = dict(nodes=f"r{2 * c}", mutations=f"r{2 * c + 1}")
        label = f"random schemas #{c} nodes={json.dumps(ncls[1], sort_keys=True)} mutations={json.dumps(mcls[1], sort_keys=True)} set_metadata={sm} {method}"
        stats["random_cases"] += 1
        one_call(res, stats, pending, f"R{c}", ts_in, sm, method, method_kw(method, info), ids, label)


def run(ctx):
    res = Result()
    import tsdate  # noqa: F401
    stats = new_stats()
    pending = {}
    hd = check_hd(stats)
    if not hd:
        res.corr_failures.append(Violation("default-schema-rejects-mn-vr", "default schema does not validate {mn, vr}: hypothesis hd fails", {}, "B"))
    lattice(ctx, res, stats, pending, ctx.rng(1), all_pairs=(ctx.tier == "thorough"))
    if ctx.tier == "thorough":
        lattice(ctx, res, stats, pending, ctx.rng(4), all_pairs=False)
    redate_sequences(ctx, res, stats, pending, ctx.rng(6))
    randoms(ctx, res, stats, pending, ctx.rng(2), ctx.n(60, 1500))
    compare_with_model(res, pending, stats)
    res.exhaustive = True
    res.rule = ("Exhaustive over the abstract domain set_metadata {False,None,True} x 24 schema/content classes (no schema empty/raw "
                "bytes, permissive JSON empty/content/stale mn,vr/mixed/empty objects, tsdate's own default schema with {mn,vr} / {mn,vr,other keys} / other keys only / some rows / empty, required-field, "
                "additionalProperties=false with/without mn,vr, mn typed string, struct with/only/without mn,vr, a table whose LAST row alone "
                "fails validation) x {nodes, mutations} x 3 methods (each class on both tables; all class pairs in the thorough tier), real "
                "date() calls, plus the multi-step route (date a schema-less ts, add user keys under the installed default schemas, date again); every set_time_metadata call's pre/post table compared with the Lean model row by row; plus random JSON schemas "
                "with random raw rows. Non-trivial = the call merged, replaced or warned (not the untouched exit); distinct by (case, table).")
    stats["hyp_len_rate"] = f"{stats['hyp_len_ok']}/{stats['hyp_len_total']}"
    res.extra = dict(input_distribution=stats, hypothesis_hit_rates=dict(
        default_schema_admits_mn_vr=stats["hyp_default_schema_admits_mn_vr"], len_mean_eq_len_var_eq_rows=stats["hyp_len_rate"]))
    return res


def search(ctx):
    res = Result()
    stats = new_stats()
    pending = {}
    randoms(ctx, res, stats, pending, ctx.rng(5), ctx.n(30, 200))
    compare_with_model(res, pending, stats)
    res.corr_failures = []          # the search only contributes implementation-side violations
    return res


def replay(ctx, payload):
    d = payload.get("input") or payload.get("correspondence_input")
    ts_in = ts_from_replay(d)
    sm, method, kw = d["set_metadata"], d["method"], d["kw"]
    res, stats, pending = Result(), new_stats(), {}
    ids = dict(nodes="pre_nodes", mutations="pre_mutations")
    one_call(res, stats, pending, "replay", ts_in, sm, method, kw, ids, "replay")
    compare_with_model(res, pending, stats)
    for k, p in pending.items():
        print(f"implementation {k}: outcome={p['impl']['outcome']} schema={p['impl']['schema']} rows={p['impl']['cells'][:3]}...")
    print("oracle classes:", stats["oracle_classes"])
    for v in res.violations:
        print("violation:", v.kind, "-", v.what)
    for v in res.corr_failures:
        print("model differs:", v.what)
    return not res.violations and not res.corr_failures
