"""
C27 — constraint enforcement is minimal and idempotent.

A  Props/C27: forced pass = max characterisation (no absorption) / bump fold (any rounding); never lowers,
   least among admissible vectors; strictly satisfied inputs unchanged for every iteration count;
   idempotent for every iteration count.
B  bit-exact correspondence numba `_constrain_ages` == Lean model.
C  the statement evaluated on util.constrain_ages for DAGs x arbitrary vectors x eps x iterations.
"""

import numpy as np

from .. import common, constrain_corr as cc, gen
from ..common import Result, Violation, f2h

META = dict(
    level='Lean theorems: forced pass = larger-of characterisation, never lowers, least admissible vector (monotone fadd); strictly valid times unchanged for every iteration count; idempotent for every iteration count and any rounding with x <= ftest x <= fadd x. Tied bit-for-bit to numba; the statement is also evaluated bitwise on the implementation.',
    note='as C01',
    technique='induction over edge list / fixpoint of the main loop + bit-exact correspondence',
    ref='§3 C27',
)
LEAN_PROPS = ["TsdateVerif.Props.C27"]
LEAN_BUILD = ["TsdateVerif.Model.Proto"]
ASSUMPTIONS = ["idempotence/unchanged are proved in exact arithmetic; on floats they are checked bitwise by the oracle"]


def run(ctx):
    res = Result()
    import tsdate  # noqa: F401
    from tsdate.util import _constrain_ages
    stats = dict(iters={}, modes={}, strict_inputs=0, idem_checked=0, char_checked=0)
    cases = cc.make_cases(ctx, ctx.n(300, 6000), stream=21)
    impl, fails = cc.correspondence(ctx, cases)
    res.corr_failures += fails
    rng = ctx.rng(22)
    for c, o in zip(cases, impl):
        if o is None:      # implementation raised: already reported as a correspondence failure
            res.evaluations += 1
            continue
        res.evaluations += 1
        stats["iters"][c["iters"]] = stats["iters"].get(c["iters"], 0) + 1
        stats["modes"][c["mode"]] = stats["modes"].get(c["mode"], 0) + 1
        rp = cc.case_replay(c)
        changed = bool(np.any(o != c["t"]))
        if changed:
            res.nontrivial.add(common.canon_key(rp))
        topo = cc.topo_ordered(c["ep"], c["ec"])
        # (1) characterisation with the least-squares phase off
        if c["iters"] == 0 and topo:
            stats["char_checked"] += 1
            for p in set(int(x) for x in c["ep"]):
                want = cc.bump_char(c["t"], o, c["ep"], c["ec"], c["eps"], p)
                if o[p] != want:
                    res.violations.append(Violation("forced-not-minimal",
                                                    f"node {p}: output {o[p]!r} but larger-of characterisation gives {want!r}", rp))
                    break
            nonparents = np.setdiff1d(np.arange(o.size), c["ep"])
            if np.any(o[nonparents] != c["t"][nonparents]):
                res.violations.append(Violation("forced-moved-nonparent", "a node that is never a parent was moved", rp))
        # (3) idempotence, any iteration count
        if topo:
            stats["idem_checked"] += 1
            c2 = dict(c, t=o.copy())
            try:
                o2 = cc.run_impl(c2)
            except Exception as e:  # noqa: BLE001
                o2 = None
                res.violations.append(Violation("not-idempotent",
                                                f"constraining already constrained times raised {type(e).__name__} (iters={c['iters']})", rp))
            if o2 is not None and not np.array_equal(o2, o):
                res.violations.append(Violation("not-idempotent",
                                                f"constraining constrained times changed {int(np.sum(o2 != o))} node(s) (iters={c['iters']})", rp))
        # (2) strictly satisfied inputs come back unchanged, for several iteration counts
        if rng.random() < 0.5:
            t = c["t"].copy()
            # build a comfortably strict vector on the same DAG: process edges in table order
            for _ in range(3):
                for p, ch in zip(c["ep"], c["ec"]):
                    lo = t[ch] + 4 * c["eps"] + abs(t[ch]) * 1e-9 + 1e-300
                    if not t[p] > lo:
                        t[p] = lo * (1 + 1e-9) + c["eps"]
            ok = np.all(t[c["ep"]] - t[c["ec"]] > 2 * c["eps"]) and cc.fixed_ok(t, c["fixed"], c["ep"], c["ec"])
            if ok:
                stats["strict_inputs"] += 1
                for it in (0, 1, 5, 100):
                    try:
                        o3 = _constrain_ages(t.copy(), c["fixed"], c["ep"], c["ec"], c["eps"], it)
                    except Exception:  # noqa: BLE001
                        o3 = None
                    res.evaluations += 1
                    if o3 is None or not np.array_equal(o3, t):
                        res.violations.append(Violation("strict-input-changed",
                                                        f"strictly valid times changed with iters={it}", dict(rp, times=[f2h(x) for x in t], iters=it)))
                        break
    if cases:
        res.sample(cc.case_replay(cases[0]))
    res.rule = ("(edges, flags) of generated tree sequences (shared children, polytomies, several trees) x adversarial time "
                "vectors x eps x iters in {0,1,2,5,100}; non-trivial = constraint changed at least one time.")
    res.extra = dict(input_distribution=stats)
    return res


def replay(ctx, payload):
    d = payload["input"] if "input" in payload else payload.get("correspondence_input")
    c = cc.case_from_replay(d)
    impl, fails = cc.correspondence(ctx, [c])
    o = impl[0]
    print("implementation:", [f2h(x) for x in o])
    print("model         :", "differs" if fails else "identical (bit-for-bit)")
    o2 = cc.run_impl(dict(c, t=o.copy()))
    print("idempotent:", bool(np.array_equal(o, o2)))
    return not fails and bool(np.array_equal(o, o2))
