"""
Stage B/C plumbing for C17: the Lean `Demography` model (Float and Rat carriers) against the real
`tsdate.demography.PopulationSizeHistory`.
"""

from fractions import Fraction

import numpy as np

from . import common
from .common import Violation, f2h, f2q, h2f, q2frac

EPS = 2.0 ** -52


# ----------------------------------------------------------------------------- generators

def loguniform(rng, lo, hi, size=None):
    return np.exp(rng.uniform(np.log(lo), np.log(hi), size=size))


def gen_history(rng, wide=True):
    """(population_size list, time_breaks list): 1..8 epochs, sizes/breaks over 1e-3..1e9."""
    k = int(rng.choice([1, 1, 2, 2, 3, 4, 5, 6, 7, 8]))
    mode = str(rng.choice(["wide", "wide", "moderate", "integers", "equal-sizes"]))
    if not wide and mode == "wide":
        mode = "moderate"
    if mode == "wide":
        ps = loguniform(rng, 1e-3, 1e9, size=k)
        tb = np.sort(loguniform(rng, 1e-3, 1e9, size=k - 1))
    elif mode == "moderate":
        base = float(loguniform(rng, 1e1, 1e6))
        ps = base * loguniform(rng, 0.1, 10, size=k)
        tb = np.sort(base * loguniform(rng, 1e-2, 1e2, size=k - 1))
    elif mode == "integers":
        ps = rng.integers(1, 50, size=k).astype(float) * float(rng.choice([1, 10, 1000]))
        tb = np.cumsum(rng.integers(1, 100, size=k - 1)).astype(float)
    else:
        ps = np.full(k, float(loguniform(rng, 1, 1e5)))
        tb = np.sort(loguniform(rng, 1, 1e5, size=k - 1))
    tb = np.unique(tb)
    if tb.size != k - 1:      # duplicates collapsed (vanishingly rare): shrink
        ps = ps[: tb.size + 1]
    return [float(x) for x in ps], [float(x) for x in tb], mode


def gen_times(rng, breaks_with_zero, n_extra=6):
    """times incl. 0, exact break points, their float neighbours, points inside and beyond."""
    b = np.asarray(breaks_with_zero, dtype=float)
    pts = [0.0]
    for x in b[1:]:
        pts += [float(x), float(np.nextafter(x, np.inf)), float(np.nextafter(x, 0.0))]
    top = float(b[-1]) if b.size > 1 else 1.0
    for _ in range(n_extra):
        r = rng.random()
        if r < 0.5 and b.size > 1:
            i = int(rng.integers(0, b.size))
            lo = b[i]
            hi = b[i + 1] if i + 1 < b.size else max(2 * top, 1.0) * 10
            pts.append(float(rng.uniform(lo, hi)))
        elif r < 0.8:
            pts.append(float(loguniform(rng, 1e-6, 1e3) * max(top, 1e-3)))
        else:
            pts.append(float(loguniform(rng, 1e-3, 1e9)))
    return sorted(set(pts))


def make_history(ps, tb):
    from tsdate.demography import PopulationSizeHistory
    return PopulationSizeHistory(np.array(ps, dtype=float), np.array(tb, dtype=float))


def make_cases(ctx, n, stream=1):
    rng = ctx.rng(stream)
    cases = []
    for _ in range(n):
        ps, tb, mode = gen_history(rng)
        # the coalescent images of the breaks, computed independently of the code under test (exact, then rounded)
        starts = [0.0] + tb
        cb = [float(exact_integral(starts, [2 * Fraction(x) for x in ps], b)) for b in starts]
        cb = [cb[0]] + [x for a, x in zip(cb[:-1], cb[1:]) if x > a]
        ts = gen_times(rng, starts)
        cs = gen_times(rng, cb)
        try:      # plus the breaks exactly as the class stores them (when it is sane), and their float neighbours
            stored = np.asarray(make_history(ps, tb).coalescent_breaks, dtype=float)
            if stored.size == len(starts) and np.all(np.isfinite(stored)) and np.all(stored >= 0):
                # (no neighbour of 0: 5e-324 only exercises underflow, which is outside the statement)
                extra = [float(x) for x in stored] + [float(np.nextafter(x, np.inf)) for x in stored[1:]] + \
                        [float(np.nextafter(x, 0.0)) for x in stored[1:]]
                cs = sorted(set(cs) | set(extra))
        except Exception:  # noqa: BLE001
            pass
        cases.append(dict(ps=ps, tb=tb, ts=ts, cs=cs, mode=mode))
    return cases


def gen_invalid(rng):
    """inputs the constructor must reject with ValueError"""
    ps, tb, _ = gen_history(rng, wide=False)
    kind = str(rng.choice(["zero-size", "neg-size", "len", "zero-break", "dup-break", "unsorted"]))
    if kind == "zero-size":
        ps[int(rng.integers(0, len(ps)))] = 0.0
    elif kind == "neg-size":
        ps[int(rng.integers(0, len(ps)))] *= -1
    elif kind == "len":
        ps = ps + [1.0]
    elif kind == "zero-break":
        if not tb:
            ps, tb = ps + [1.0], [0.0]
        else:
            tb[0] = 0.0
    elif kind == "dup-break":
        if len(tb) < 2:
            ps, tb = [1.0, 2.0, 3.0], [5.0, 5.0]
        else:
            tb[1] = tb[0]
    else:
        if len(tb) < 2:
            ps, tb = [1.0, 2.0, 3.0], [7.0, 5.0]
        else:
            tb[0], tb[-1] = tb[-1], tb[0]
    return ps, tb, kind


# ----------------------------------------------------------------------------- line protocol

def _vals(xs, num):
    f = f2h if num == "f" else f2q
    return " ".join(f(x) for x in xs)


def enc_hist(i, c, num):
    return "\n".join([f"case {i}", "op hist", f"num {num}", "ps " + _vals(c["ps"], num),
                      "tb " + _vals(c["tb"], num), "ts " + _vals(c["ts"], num),
                      "cs " + _vals(c["cs"], num), "end"]) + "\n"


def enc_ctm(i, c, num):
    return "\n".join([f"case {i}", "op ctm", f"num {num}", "bs " + _vals(c["bs"], num),
                      "ms " + _vals(c["ms"], num), "ts " + _vals(c["ts"], num), "end"]) + "\n"


def enc_gamma(i, c, num="f"):
    return "\n".join([f"case {i}", "op gamma", f"num {num}", "ps " + _vals(c["ps"], num),
                      "tb " + _vals(c["tb"], num), "rate " + _vals([c["rate"]], num),
                      "C " + _vals([c["C"]], num), "gam " + _vals(c["gam"], num), "pw " + _vals(c["pw"], num),
                      "P0 " + _vals(c["P"][0], num), "P1 " + _vals(c["P"][1], num), "P2 " + _vals(c["P"][2], num),
                      "Pinf " + _vals(c["Pinf"], num), "end"]) + "\n"


def parse_reply(line, num):
    """-> (id, None) for bad-op, else (id, dict tag -> list of values)"""
    head, _, rest = line.partition(" ")
    if rest.strip() == "bad-op":
        return int(head), None
    conv = h2f if num == "f" else q2frac
    out = {}
    for grp in rest.split("|"):
        w = grp.split()
        if not w:
            continue
        out[w[0]] = [int(x) for x in w[1:]] if w[0] == "rt" else [conv(x) for x in w[1:]]
    return int(head), out


class Batch:
    """collect cases of several stages and run the Lean driver once (each `lean --run` start costs seconds)"""

    def __init__(self):
        self.parts, self.nums, self.out = [], {}, None

    def add(self, enc, case, num):
        i = len(self.parts)
        self.parts.append(enc(i, case, num))
        self.nums[i] = num
        return i

    def run(self):
        self.out = run_driver("".join(self.parts), self.nums) if self.parts else {}

    def get(self, i):
        return self.out.get(i)


def run_driver(text, nums):
    """nums: dict case id -> 'f'|'q'"""
    out = {}
    for ln in common.lean_driver("Demography", text):
        if not ln.strip():
            continue
        cid = int(ln.split()[0])
        out[cid] = parse_reply(ln, nums[cid])[1]
    return out


# ----------------------------------------------------------------------------- exact reference + conditioning

def exact_integral(starts, measures, t):
    """∫_0^t 1/measure as the direct sum over epochs of overlap/measure, in exact rationals
    (this is the *statement*, not the model's algorithm)."""
    t = Fraction(t)
    tot = Fraction(0)
    n = len(starts)
    for k in range(n):
        lo = Fraction(starts[k])
        hi = Fraction(starts[k + 1]) if k + 1 < n else None
        if t <= lo:
            break
        up = t if hi is None or t < hi else hi
        tot += (up - lo) / Fraction(measures[k])
    return tot


def magnitude(starts, measures, t):
    """Σ |terms| of the code's formula t/m[i] + Σ_{k<=i} b_k (1/m_{k-1} - 1/m_k): the scale against
    which rounding errors of that formula are measured (cancellation makes them large relative to
    the result when neighbouring sizes differ by many orders of magnitude)."""
    starts = np.asarray(starts, dtype=float)
    measures = np.asarray(measures, dtype=float)
    i = int(np.searchsorted(starts, t, side="right") - 1)
    mag = abs(t) / measures[i]
    for k in range(1, i + 1):
        mag += abs(starts[k]) * (1 / measures[k - 1] + 1 / measures[k])
    return float(mag)


def bits_equal(a, b):
    return len(a) == len(b) and all(f2h(x) == f2h(y) for x, y in zip(a, b))


def max_ulps(a, b):
    if len(a) != len(b):
        return float("inf")
    m = 0
    for x, y in zip(a, b):
        if not (np.isfinite(x) and np.isfinite(y)):
            if f2h(x) != f2h(y):
                return float("inf")
            continue
        m = max(m, common.ulps(float(x), float(y)))
    return m


def err_coal(h, t):
    """rounding-error scale of to_coalescent_timescale at t (time_breaks/population_size are inputs)"""
    return EPS * magnitude(h.time_breaks, h.population_size, t)


def err_nat(h, c):
    """rounding-error scale of to_natural_timescale at c: its own formula plus the errors already in the
    stored coalescent_breaks (each about EPS*magnitude at that break), which the step sum multiplies by
    the jump in 2N at the break"""
    cb, cr = h.coalescent_breaks, h.coalescent_rate
    i = int(np.searchsorted(cb, c, side="right") - 1)
    hi = min(i + 1, len(cb) - 1)
    tot = magnitude(cb, cr, c)
    for k in range(1, hi + 1):
        tot += magnitude(h.time_breaks, h.population_size, h.time_breaks[k]) * (1 / cr[k - 1] + 1 / cr[k])
    return EPS * tot


def _near(arr, i):
    return [arr[k] for k in range(max(i - 1, 0), min(i + 1, len(arr) - 1) + 1)]


def tol_roundtrip_nat(h, t, y):
    """|to_natural(to_coalescent(t)) - t| is bounded by about this (y = to_coalescent(t))"""
    i = int(np.searchsorted(h.coalescent_breaks, y, side="right") - 1)
    slope = max(1 / r for r in _near(h.coalescent_rate, i))
    return err_nat(h, y) + slope * err_coal(h, t)


def tol_roundtrip_coal(h, c, x):
    """|to_coalescent(to_natural(c)) - c| is bounded by about this (x = to_natural(c))"""
    i = int(np.searchsorted(h.time_breaks, x, side="right") - 1)
    slope = max(1 / m for m in _near(h.population_size, i))
    return err_coal(h, x) + slope * err_nat(h, c)
