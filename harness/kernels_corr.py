"""
Stage B for the translated scalar kernels (C18, C19; reused by C05/C20/C06/C07): execute the *generated* Lean
definitions (Gen/Kernels.lean, via Gen/KernelsRun.lean and Driver/Kernels.lean) at Float against the real
numba functions on generated parameter vectors.

Comparison: `none` <-> NaN position by position; AssertionError/KLMinimizationFailedError <-> `pre_f = false`;
numbers bit-for-bit, except components that depend on the driver's own lgamma (log-normalisers, `_betaln`,
the x~1 branch of `_hyp2f1_laplace`) and pure-Python helpers using libm `pow`, which get a stated tolerance.
"""

import math

import numpy as np

from . import common
from .common import Violation, f2h, h2f

_SIGS = None
_TR = None
LAST = {}      # side results of the last correspondence run (driver lgamma error)


def translator():
    global _TR
    if _TR is None:
        from translate import kernels
        _TR = kernels.build()
    return _TR


TRANSLATION_ERROR = None     # set when the source could not be translated (the oracle still runs on static signatures)


def sigs():
    global _SIGS, TRANSLATION_ERROR
    if _SIGS is None:
        from translate import kernels
        try:
            _SIGS = kernels.signature_table(translator())
        except Exception as e:      # outside the translator's subset: stage A reports it; keep stage C alive
            TRANSLATION_ERROR = f"{type(e).__name__}: {e}"
            _SIGS = kernels.signature_table_static()
    return _SIGS


# kernels that cannot be called from Python (nested defs)
NOT_CALLABLE = {"_hyp2f1_unity"}

# output positions that depend on lgamma (compared with tolerance LG_TOL relative to a scale)
LGAMMA_OUT = {
    "_betaln": [0], "moments": [0], "rootward_moments": [0], "leafward_moments": [0], "unphased_moments": [0],
    "twin_moments": [0], "sideways_moments": [0], "gamma_projection": [0], "leafward_projection": [0],
    "rootward_projection": [0], "unphased_projection": [0], "twin_projection": [0], "sideways_projection": [0],
}
# kernels every output of which may go through the x~1 (lgamma) branch of _hyp2f1_laplace
UNITY_PATH = {"_hyp2f1_laplace", "moments", "unphased_moments", "mutation_moments", "mutation_unphased_moments",
              "gamma_projection", "unphased_projection", "mutation_gamma_projection", "mutation_unphased_projection"}
# pure-Python helpers (libm pow instead of numba's square-and-multiply)
PURE_PYTHON = {"lognorm_approx", "gamma_approx", "tau_expect"}
RTOL = 1e-12
LG_TOL = 1e-11


def real_fn(name):
    import tsdate.approx
    import tsdate.hypergeo
    import tsdate.prior
    import tsdate.variational
    s = sigs()[name]
    if name == "tau_expect":
        return tsdate.prior.ConditionalCoalescentTimes.tau_expect
    return getattr({"approx": tsdate.approx, "hypergeo": tsdate.hypergeo, "variational": tsdate.variational,
                    "prior": tsdate.prior}[s["module"]], name)


# ----------------------------------------------------------------------------- generators

SPECIALS = [0.0, -0.0, -1.0, 1.0, math.inf, -math.inf, math.nan, 1e-300, 1e300, 5e-324]


def logu(rng, lo, hi):
    return float(np.exp(rng.uniform(np.log(lo), np.log(hi))))


def g_shape(rng):      # gamma shape (already +1), as in EP posteriors/cavities
    r = rng.random()
    if r < 0.15:
        return logu(rng, 1e-3, 1.0)
    if r < 0.8:
        return logu(rng, 1.0, 300.0)
    return logu(rng, 300.0, 1e5)


def g_rate(rng, signed=False):
    v = logu(rng, 1e-9, 1e3)
    if signed and rng.random() < 0.12:
        return -v
    return v


def g_count(rng):
    return float(rng.choice([0, 0, 1, 1, 2, 3, 5, 8, 20, 100, 1000, 0.5]))


def g_age(rng, zero_ok):
    if zero_ok and rng.random() < 0.35:
        return 0.0
    return logu(rng, 1e-4, 1e7)


def g_pos(rng):
    return logu(rng, 1e-12, 1e12)


def gen_args(rng, name):
    """flat list of doubles for kernel `name`"""
    s = sigs()[name]
    pn = [p for p, _ in s["params"]]
    out = []
    # ---- custom generators
    if name.startswith("_valid_"):
        k = len(pn)
        v = [g_shape(rng) for _ in range(k)]
        mode = rng.integers(0, 6)
        if name == "_valid_hyp2f1":
            v[3] = float(rng.choice([0.0, 0.5, -3.0, 1.0, 1.5, math.nextafter(1.0, 0), -1e9, 0.999999]))
        if name in ("_valid_hyp1f1", "_valid_hyperu"):
            v[2] = float(rng.choice([0.0, 1.0, -1.0, 1e-300, 30.0]))
            if mode == 1:
                v[1] = v[0]                 # b == a boundary
            elif mode == 2:
                v[1] = v[0] + abs(v[1])     # b > a
        if name in ("_valid_moments", "_valid_gamma") and mode < 2:
            v = [g_pos(rng), g_pos(rng)]
        if mode >= 3:
            v[int(rng.integers(0, k))] = float(rng.choice(SPECIALS))
        return v
    if name == "_betaln":
        return [g_shape(rng), g_shape(rng)]
    if name == "_hyperu_laplace":
        a = g_shape(rng)
        b = a + (0.0 if rng.random() < 0.1 else float(rng.choice([1.0, 2.0, 6.0, 21.0, 101.0])))
        x = logu(rng, 1e-8, 1e6)
        v = [a, b, x]
        if rng.random() < 0.1:
            v[int(rng.integers(0, 3))] = float(rng.choice([0.0, -1.0, 1e-300]))
        return v
    if name == "_hyp1f1_laplace":
        a = g_shape(rng)
        b = a + float(rng.choice([1.0, 2.0, 6.0, 21.0, 101.0, 0.0]))
        x = float(rng.choice([0.0, logu(rng, 1e-6, 1e5), -logu(rng, 1e-6, 1e5)]))
        return [a, b, x]
    if name == "_hyp2f1_laplace":
        a_j, a_i, y = g_shape(rng), g_shape(rng), g_count(rng)
        if rng.random() < 0.5:
            a, b, c = a_j, a_i + a_j + y, a_j + y + 1
        else:
            a, b, c = a_j, a_i + a_j + y, a_j + a_i
        r = rng.random()
        if r < 0.1:
            x = 0.0
        elif r < 0.45:
            x = rng.uniform(0, 1) ** float(rng.choice([0.3, 1, 3]))
        elif r < 0.8:
            x = -logu(rng, 1e-6, 1e4)
        elif r < 0.9:
            x = -logu(rng, 1e5, 1e12)       # x/(x-1) close to 1: the unity branch
        else:
            x = float(rng.choice([1.0 - 1e-6, 1.0 - 1e-9, 1.0, 1.5, math.nextafter(1.0, 0.0)]))
        return [a, b, c, float(x)]
    if name == "_damp":
        x = [g_shape(rng) - 1.0, g_rate(rng)]
        r = rng.random()
        if r < 0.1:
            return [0.0, 0.0, 0.0, 0.0, 0.1]
        if r < 0.2:
            y = [0.0, 0.0]
        elif r < 0.6:
            y = [x[0] * rng.uniform(0, 1.3), x[1] * rng.uniform(0, 1.3)]     # message smaller/larger than posterior
        else:
            y = [rng.normal() * (1 + abs(x[0])), rng.normal() * x[1]]
        sv = float(rng.choice([0.1, 0.1, 0.5, 0.01, 0.99, 0.0, 1.0]))
        return x + y + [sv]
    if name == "_rescale":
        r = rng.random()
        if r < 0.1:
            return [0.0, 0.0, 1000.0]
        x0 = float(rng.choice([logu(rng, 1e-3, 1e6), -rng.uniform(0, 1), -1.0, 999.0, 1e-3 - 1]))
        return [x0, g_rate(rng), float(rng.choice([1000.0, 1000.0, 2.0, 1.0, 1e6]))]
    if name == "tau_expect":
        n = int(rng.integers(2, 200))
        i = n if rng.random() < 0.3 else int(rng.integers(1, n + 1))
        return [float(i), float(n)]
    # ---- by parameter name
    sp = rng.random() < 0.08
    for p, kind in s["params"]:
        if kind == "P":
            if p == "pars_ij":
                out += [g_count(rng), g_rate(rng)]
            elif p in ("x", "y"):
                out += [g_shape(rng) - 1.0, g_rate(rng)]
            else:
                out += [g_shape(rng) - 1.0, g_rate(rng, signed=True)]
        elif p in ("a_i", "a_j"):
            out.append(g_shape(rng))
        elif p in ("b_i", "b_j"):
            out.append(g_rate(rng, signed=True))
        elif p == "y_ij":
            out.append(g_count(rng))
        elif p == "mu_ij":
            out.append(g_rate(rng))
        elif p == "t_j":
            out.append(g_age(rng, name in ("rootward_moments", "rootward_projection", "mutation_rootward_moments",
                                           "mutation_rootward_projection", "mutation_edge_moments",
                                           "mutation_edge_projection")))
        elif p == "t_i":
            out.append(g_age(rng, False))
        else:
            out.append(g_pos(rng))
    # correlated regimes that the independent draws rarely reach
    if name in ("moments", "mutation_moments", "gamma_projection", "mutation_gamma_projection",
                "unphased_moments", "mutation_unphased_moments", "unphased_projection", "mutation_unphased_projection"):
        r = rng.random()
        ib_i, ib_j, imu = flat_index(s, "b_i", "pars_i", 1), flat_index(s, "b_j", "pars_j", 1), flat_index(s, "mu_ij", "pars_ij", 1)
        if r < 0.06:
            out[ib_j] = out[imu] + (out[imu] + abs(out[ib_i])) * logu(rng, 1e5, 1e10)      # z -> -inf (unity branch)
        elif r < 0.10:
            out[ib_i] = -out[imu] * float(rng.choice([1.0, 1.5]))                          # t <= 0
        elif r < 0.14:
            out[ib_j] = out[imu]                                                            # z == 0
    if name.endswith("edge_moments") or name.endswith("edge_projection") or "block" in name:
        if rng.random() < 0.1:
            out[1] = out[0]
    if sp:
        out[int(rng.integers(0, len(out)))] = float(rng.choice(SPECIALS))
    return out


def kindpos(s, *names):
    return None


def flat_index(s, scalar_name, pair_name, comp):
    k = 0
    for p, kind in s["params"]:
        if p == scalar_name:
            return k
        if p == pair_name:
            return k + comp
        k += 2 if kind == "P" else 1
    raise KeyError(scalar_name)


def callable_kernels():
    return [n for n in sigs() if n not in NOT_CALLABLE]


def make_cases(ctx, per_kernel, stream=11, names=None):
    rng = ctx.rng(stream)
    cases = []
    for name in (names or callable_kernels()):
        for _ in range(per_kernel):
            cases.append(dict(name=name, args=gen_args(rng, name)))
    return cases


# ----------------------------------------------------------------------------- running

def pack_args(name, flat):
    s = sigs()[name]
    args, k = [], 0
    for p, kind in s["params"]:
        if kind == "P":
            args.append(np.array(flat[k:k + 2], dtype=np.float64))
            k += 2
        else:
            # the pure-Python helpers of prior.py are called with numpy scalars by tsdate itself
            args.append(np.float64(flat[k]) if name in PURE_PYTHON else float(flat[k]))
            k += 1
    return args


def flatten_out(r):
    if isinstance(r, (tuple, list)):
        out = []
        for x in r:
            out += flatten_out(x)
        return out
    if isinstance(r, np.ndarray):
        return [float(x) for x in r.ravel()]
    if isinstance(r, (bool, np.bool_)):
        return [1.0 if r else 0.0]
    return [float(r)]


def run_real(name, flat):
    """('ok', [floats]) | ('assert', msg) | ('zerodiv', msg) | ('raise', 'Type: msg')"""
    fn = real_fn(name)
    try:
        with np.errstate(all="ignore"):
            r = fn(*pack_args(name, flat))
    except AssertionError as e:
        return ("assert", str(e))
    except ZeroDivisionError as e:
        return ("zerodiv", str(e))
    except Exception as e:  # KLMinimizationFailedError etc.
        if type(e).__name__ == "KLMinimizationFailedError":
            return ("assert", f"KLMinimizationFailedError: {e}")
        return ("raise", f"{type(e).__name__}: {e}")
    return ("ok", flatten_out(r))


_NB_LGAMMA = None


def numba_lgamma():
    """`math.lgamma` as compiled by numba (what the kernels call)."""
    global _NB_LGAMMA
    if _NB_LGAMMA is None:
        import numba

        @numba.njit("f8(f8)")
        def _lg(x):
            return math.lgamma(x)
        _NB_LGAMMA = _lg
    return _NB_LGAMMA


class _PyMirror:
    """While active, every numba dispatcher of tsdate.approx / tsdate.hypergeo is replaced by its pure-Python
    `py_func` and `lgamma` by a recording wrapper, so that calling a kernel's `py_func` reveals the arguments it
    passes to lgamma (with the values `math.lgamma` returns).  Used only to build the driver's oracle table."""

    def __enter__(self):
        import tsdate.approx
        import tsdate.hypergeo
        self.saved = []
        self.table = {}

        nb = numba_lgamma()

        def rec(x):
            v = float(nb(float(x)))      # numba's own lgamma (its bits differ from CPython's math.lgamma)
            self.table[f2h(x)] = v
            return v

        def safe_exp(x):
            try:
                return math.exp(x)
            except OverflowError:
                return math.inf

        for mod in (tsdate.approx, tsdate.hypergeo):
            for k, v in list(vars(mod).items()):
                if hasattr(v, "py_func"):
                    self.saved.append((mod, k, v))
                    setattr(mod, k, v.py_func)
            for k, f in (("lgamma", rec), ("exp", safe_exp)):
                if hasattr(mod, k):
                    self.saved.append((mod, k, getattr(mod, k)))
                    setattr(mod, k, f)
        return self

    def __exit__(self, *a):
        for mod, k, v in reversed(self.saved):
            setattr(mod, k, v)

    def lgamma_table(self, name, flat):
        import tsdate.approx
        import tsdate.hypergeo
        s = sigs()[name]
        if s["module"] not in ("approx", "hypergeo"):
            return {}
        self.table = {}
        fn = getattr({"approx": tsdate.approx, "hypergeo": tsdate.hypergeo}[s["module"]], name)
        try:
            with np.errstate(all="ignore"):
                fn(*pack_args(name, flat))
        except Exception:
            pass
        return dict(self.table)


def lgamma_tables(cases):
    with _PyMirror() as m:
        for c in cases:
            if "lg" not in c:
                c["lg"] = m.lgamma_table(c["name"], c["args"])


EXTRA = {}     # replies to `extra_lines` of the last run_model call, keyed by their id


def run_model(cases, lgamma_probe=None, extra_lines=()):
    """list of None (bad-op) | (pre: bool, exact: bool, [float | None]).
    With `lgamma_probe` (a list of doubles) the driver's own lgamma is evaluated in the same process and the
    function returns (outs, [values]).  `extra_lines` (other driver commands, ids starting with a letter other
    than L) are passed through; their replies are left in EXTRA[id] = [words]."""
    lgamma_tables(cases)
    lines_in = []
    for i, c in enumerate(cases):
        ln = f"k {i} {c['name']} " + " ".join(f2h(x) for x in c["args"])
        if c["lg"]:
            ln += " | " + " ".join(f"{k} {f2h(v)}" for k, v in c["lg"].items())
        lines_in.append(ln + "\n")
    for j, x in enumerate(lgamma_probe or []):
        lines_in.append(f"lg L{j} {f2h(x)}\n")
    lines_in += list(extra_lines)
    lines = common.lean_driver("Kernels", "".join(lines_in))
    outs = [None] * len(cases)
    probe = [None] * len(lgamma_probe or [])
    EXTRA.clear()
    for ln in lines:
        w = ln.split()
        if not w:
            continue
        if w[0].startswith("L"):
            probe[int(w[0][1:])] = h2f(w[2])
            continue
        if not w[0][0].isdigit():
            EXTRA[w[0]] = w[1:]
            continue
        i = int(w[0])
        if w[1:] == ["bad-op"]:
            continue
        outs[i] = (w[1] != "0", w[1] == "1", [None if x == "nan" else h2f(x) for x in w[2:]])
    return outs if lgamma_probe is None else (outs, probe)


def lgamma_points(rng, n=400):
    return [logu(rng, 1e-6, 1e8) for _ in range(n)] + [1.0, 2.0, 0.5, 1.5, 3.0, 15.999, 16.0, 1e-300]


def lgamma_error(xs, vals):
    worst = 0.0
    for x, v in zip(xs, vals):
        ref = math.lgamma(x)
        worst = max(worst, abs(v - ref) / max(1.0, abs(ref)))
    return worst


def lgamma_check(rng, n=400):
    """max relative error of the driver's lgamma against math.lgamma (scale: max(1, |lgamma|))"""
    xs = lgamma_points(rng, n)
    _, vals = run_model([], xs)
    return lgamma_error(xs, vals)


def scale_of(c):
    """magnitude of the terms a log-normaliser is assembled from"""
    a = [abs(x) for x in c["args"] if math.isfinite(x)]
    m = max(a + [1.0])
    return 1.0 + m * (1.0 + abs(math.log(m))) * 4


def compare_case(c, real, model):
    """returns (status, detail).  status in ok-bits | ok-tol | skip-zerodiv | FAIL-*"""
    name = c["name"]
    if model is None:
        return "FAIL-bad-op", "driver rejected the case"
    pre, exact, mo = model
    if real[0] == "zerodiv":
        # numba's python error model raises on x / 0.0 where IEEE (the model at Float) yields inf or NaN: the model must
        # at least show a non-finite or NaN component (or a false precondition); an all-finite reply means it never
        # divided by zero, i.e. it computes something else
        if pre and mo and all(m is not None and math.isfinite(m) for m in mo):
            return "FAIL-zerodiv", f"real code raised ZeroDivisionError but the model returns finite values {mo}"
        return "skip-zerodiv", real[1]
    if real[0] == "assert":
        return ("ok-assert", real[1]) if not pre else ("FAIL-assert", f"real code raised ({real[1][:80]}) but pre_{name} holds")
    if real[0] == "raise":
        return "FAIL-raise", real[1]
    if not pre:
        return "FAIL-pre", f"pre_{name} is false but the real code returned normally"
    ro = real[1]
    if len(ro) != len(mo):
        return "FAIL-arity", f"{len(ro)} outputs vs {len(mo)}"
    worst, status = 0.0, "ok-bits"
    lg = set(LGAMMA_OUT.get(name, []))
    for k, (r, m) in enumerate(zip(ro, mo)):
        if m is None or (m != m):
            if r == r and m is None:
                return "FAIL-nan", f"output {k}: model none, real {r!r}"
            if r == r:
                return "FAIL-nan", f"output {k}: model NaN value, real {r!r}"
            continue
        if r != r:
            return "FAIL-nan", f"output {k}: real NaN, model {m!r}"
        if f2h(r) == f2h(m) or r == m:
            continue
        if math.isinf(r) or math.isinf(m):
            return "FAIL-value", f"output {k}: real {r!r} model {m!r}"
        if exact and name not in PURE_PYTHON:
            err = abs(r - m) / max(abs(r), abs(m))
            return "FAIL-bits", f"output {k}: real {r!r} ({f2h(r)}) model {m!r} ({f2h(m)}) rel err {err:.2e}"
        status = "ok-tol"
        if k in lg:
            err = abs(r - m) / scale_of(c)
            if err > LG_TOL:
                return "FAIL-value", f"output {k} (lgamma-dependent): real {r!r} model {m!r} scaled err {err:.2e}"
        elif name in UNITY_PATH or name in PURE_PYTHON:
            err = abs(r - m) / max(abs(r), abs(m))
            worst = max(worst, err)
            if err > (1e-9 if name in UNITY_PATH else RTOL):
                return "FAIL-value", f"output {k}: real {r!r} model {m!r} rel err {err:.2e}"
        else:
            err = abs(r - m) / max(abs(r), abs(m))
            return "FAIL-bits", f"output {k}: real {r!r} ({f2h(r)}) model {m!r} ({f2h(m)}) rel err {err:.2e}"
    return status, worst


def correspondence(ctx, cases, extra_lines=()):
    """Returns (real_outputs, model_outputs, corr_failures, stats)."""
    reals = [run_real(c["name"], c["args"]) for c in cases]
    xs = lgamma_points(ctx.rng(12), 200)
    models, vals = run_model(cases, xs, extra_lines)
    fails, stats = [], {}
    LAST["lgamma_driver_max_rel_err"] = lgamma_error(xs, vals)
    for c, r, m in zip(cases, reals, models):
        st, detail = compare_case(c, r, m)
        d = stats.setdefault(c["name"], {})
        d[st] = d.get(st, 0) + 1
        if st.startswith("FAIL"):
            fails.append(Violation("kernel-model-differs:" + c["name"],
                                   f"{c['name']}{tuple(c['args'])}: {st}: {detail}",
                                   dict(kind="kernel", name=c["name"], args=[f2h(x) for x in c["args"]],
                                        real=[r[0]] + ([f2h(x) for x in r[1]] if r[0] == "ok" else [r[1]]),
                                        model=None if m is None else [m[0], m[1]] + [None if x is None else f2h(x) for x in m[2]],
                                        lgamma={k: f2h(v) for k, v in c.get("lg", {}).items()}),
                                   stage="B"))
    return reals, models, fails, stats


def case_from_replay(d):
    c = dict(name=d["name"], args=[h2f(x) for x in d["args"]])
    return c
