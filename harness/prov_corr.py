"""
C33 support: real calls of the public entry points with provenance snapshots before/after, value
tokens, and the Lean provenance model runner (Driver/Provenance.lean).
"""

import inspect
import json

import numpy as np

from . import common
from .common import f2h

DATING = ["variational_gamma", "inside_outside", "maximization"]
# keyword parameters that change the returned tree sequence (as opposed to the return shape)
RESULT_AFFECTING = {"mutation_rate", "recombination_rate", "time_units", "population_size", "priors", "constr_iterations",
                    "min_branch_length", "set_metadata", "allow_unary", "eps", "num_threads", "outside_standardize",
                    "ignore_oldest_root", "probability_space", "max_iterations", "max_shape", "rescaling_intervals",
                    "rescaling_iterations", "match_segregating_sites", "regularise_roots", "singletons_phased",
                    "minimum_gap", "erase_flanks", "delete_intervals", "split_disjoint", "filter_populations",
                    "filter_individuals", "filter_sites"}
SIMPLIFY_KWARGS = {"keep_unary", "filter_nodes", "keep_input_roots", "reduce_to_site_topology", "keep_unary_in_individuals"}


def ptok(v):
    if v is None:
        return "N"
    if isinstance(v, (bool, np.bool_)):
        return "B1" if v else "B0"
    if isinstance(v, (int, np.integer)):
        return f"I{int(v)}"
    if isinstance(v, (float, np.floating)):
        return "F" + f2h(float(v))
    if isinstance(v, str):
        return "S" + v.encode().hex()
    return "J" + json.dumps(v, separators=(",", ":")).encode().hex()


def _plain(o):
    # what a faithful record holds for a numpy scalar / array: the plain Python value
    if hasattr(o, "tolist"):
        return o.tolist()
    raise TypeError(type(o).__name__)


def jsonable(v):
    """The plain value as it comes back from a JSON round trip (numpy scalars/arrays -> Python numbers/lists),
    or a marker if it cannot be encoded at all."""
    try:
        return json.loads(json.dumps(v, default=_plain))
    except TypeError:
        return ("<not json>", type(v).__name__)


def prov_rows(ts):
    return [(p.record, p.timestamp) for p in ts.provenances()]


def with_prior_rows(ts, rng, k):
    """k earlier provenance rows, one of them not JSON at all (must be kept byte for byte)."""
    t = ts.dump_tables()
    t.provenances.clear()
    for i in range(k):
        if i == 1:
            t.provenances.add_row(record="not json at all é {", timestamp="1999-12-31T23:59:59")
        else:
            t.provenances.add_row(record=json.dumps({"software": {"name": f"tool{i}"}, "n": int(rng.integers(0, 99)),
                                                     "parameters": {"command": "x", "mutation_rate": 1}}),
                                  timestamp=f"2020-01-0{i + 1}T00:00:00")
    return t.tree_sequence()


def normalise_population_size(ps):
    """What EstimationMethod.__init__ records for population_size (contract of demography.PopulationSizeHistory)."""
    import tsdate
    ne = ps
    if isinstance(ne, dict):
        ne = tsdate.demography.PopulationSizeHistory(**ne)
    return ne.as_dict() if hasattr(ne, "as_dict") else ne


def call_entry(entry, method, ts, kwargs):
    import tsdate
    if entry == "date":
        fn = lambda: tsdate.date(ts, method=method, **kwargs)  # noqa: E731
    elif entry in DATING:
        fn = lambda: getattr(tsdate, entry)(ts, **kwargs)  # noqa: E731
    elif entry == "preprocess_ts":
        fn = lambda: tsdate.preprocess_ts(ts, **kwargs)  # noqa: E731
    else:
        fn = lambda: tsdate.util.split_disjoint_nodes(ts, **kwargs)  # noqa: E731
    from . import dating
    dating.quiet()
    import logging
    logging.getLogger("tsdate").setLevel(logging.ERROR)
    try:
        return dict(ok=True, out=fn(), exc=None, msg="")
    except BaseException as e:  # noqa: BLE001
        if isinstance(e, (KeyboardInterrupt, MemoryError)):
            raise
        return dict(ok=False, out=None, exc=type(e).__name__, msg=str(e)[:300])


def bound_args(entry, method, kwargs):
    """Caller's values seen by the function that resolves defaults (the method function /
    preprocess_ts): signature defaults overlaid with what was passed."""
    import tsdate
    if entry in ("date",) + tuple(DATING):
        fn = getattr(tsdate, method)
    elif entry == "preprocess_ts":
        fn = tsdate.preprocess_ts
    else:
        fn = tsdate.util.split_disjoint_nodes
    out = {}
    for name, p in inspect.signature(fn).parameters.items():
        if p.kind in (p.KEYWORD_ONLY, p.POSITIONAL_OR_KEYWORD) and p.default is not inspect.Parameter.empty:
            out[name] = p.default
    out.update(kwargs)
    return out


def encode_case(cid, entry, method, user, n_prior, passed, npop, computed, extra=None):
    lines = [f"case {cid}", f"entry {entry}"]
    if method:
        lines.append(f"method {method}")
    lines.append(f"user {'none' if user is None else (1 if user else 0)}")
    lines.append("prov " + " ".join(f"p{i}" for i in range(n_prior)))
    for k, v in passed.items():
        jv = jsonable(v)
        if isinstance(jv, tuple):
            continue
        lines.append(f"arg {k} {ptok(jv)}")
    if npop is not None:
        lines.append(f"npop {ptok(jsonable(npop))}")
    if computed is not None:
        lines.append(f"computed {ptok(computed)}")
    for k, v in (extra or {}).items():
        lines.append(f"extra {k} {ptok(jsonable(v))}")
    lines.append("end")
    return "\n".join(lines) + "\n"


def run_model(texts):
    if not texts:
        return {}
    lines = common.lean_driver("Provenance", "".join(texts))
    out = {}
    for ln in lines:
        p = ln.split()
        if p:
            out[p[0]] = None if p[1:] == ["bad-op"] else p[1:]
    return out


def impl_rows(pre, post):
    """Canonical row list of the implementation: p<i> for an old row found unchanged at index i,
    NEW:... for a tsdate record, CHANGED/OTHER otherwise."""
    rows = []
    for i, r in enumerate(post):
        if i < len(pre):
            rows.append(f"p{i}" if r == pre[i] else f"CHANGED{i}")
            continue
        try:
            rec = json.loads(r[0])
            params = rec["parameters"]
            rows.append("NEW:" + ",".join(f"{k}={ptok(v)}" for k, v in params.items()))
        except Exception:  # noqa: BLE001
            rows.append("OTHER")
    return rows
