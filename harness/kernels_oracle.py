"""
Stage C oracle for C18: moments of the *stated* tilted densities (docstrings of tsdate/approx.py) by direct
numerical integration — no hypergeometric function, no Laplace formula, none of the code's closed-form algebra.

Every target reduces to one-dimensional integrals of a smooth log-density:
  one free age        integrate over the free age directly;
  two free ages       polar-type substitution, the radial (gamma) integral done analytically:
      edge   t_j = u t_i :  E[t_i^m t_j^n] = Γ(B+m+n)/Γ(B) T^-(m+n) ∫ u^(a_j-1+n) (1-u)^y (1-zu)^-(B+m+n) du / ∫(m=n=0)
      block  t_i = s w, t_j = s (1-w) : E[s^k g(w)] = Γ(B+k)/Γ(B) ∫ g w^(a_i-1) (1-w)^(a_j-1) R(w)^-(B+k) dw / ∫(k=0, g=1)
The integrals are computed after a logit / log change of variable (which removes endpoint singularities and
makes the integrand decay exponentially) with the trapezoid rule on a window around the mode (8001 points,
log-integrand > max - 80), in log space.  `selfcheck` compares the integrator with mpmath.quad.
"""

import math

import numpy as np
from scipy.special import gammaln

NPTS = 8001
DROP = 80.0


def _window(g, lo, hi):
    """[lo', hi'] inside [lo, hi] where g (vectorised log-integrand in the transformed variable) > max - DROP"""
    for _ in range(6):
        x = np.linspace(lo, hi, 2001)
        v = g(x)
        v = np.where(np.isnan(v), -np.inf, v)
        m = np.max(v)
        if not np.isfinite(m):
            return None
        ok = np.where(v > m - DROP)[0]
        i0, i1 = max(ok[0] - 1, 0), min(ok[-1] + 1, len(x) - 1)
        nlo, nhi = x[i0], x[i1]
        if (nhi - nlo) > 0.25 * (hi - lo):
            return nlo, nhi
        lo, hi = nlo, nhi
    return lo, hi


def log_integrals(logdens, fs, kind, scale=1.0):
    """log ∫ f_k(t) exp(logdens(t)) dt for non-negative f_k given as log-functions `fs` (each maps t -> log f(t)).
    kind: 'unit' t in (0,1) via t = expit(x);  'pos' t in (0,inf) via t = scale*exp(x)."""
    if kind == "unit":
        def tr(x):
            lt = -np.logaddexp(0.0, -x)         # log t
            l1t = -np.logaddexp(0.0, x)         # log(1-t)
            return lt, l1t, lt + l1t            # jacobian dt = t(1-t) dx
        lo, hi = -745.0, 745.0
    else:
        def tr(x):
            lt = x + math.log(scale)
            return lt, None, lt
        lo, hi = -700.0, 700.0

    def g(x):
        lt, l1t, lj = tr(x)
        with np.errstate(all="ignore"):
            return logdens(lt, l1t) + lj

    w = _window(g, lo, hi)
    if w is None:
        return None
    x = np.linspace(w[0], w[1], NPTS)
    lt, l1t, lj = tr(x)
    with np.errstate(all="ignore"):
        base = logdens(lt, l1t) + lj
    h = (w[1] - w[0]) / (NPTS - 1)
    out = []
    for f in fs:
        with np.errstate(all="ignore"):
            v = base + f(lt, l1t)
        v = np.where(np.isnan(v), -np.inf, v)
        m = np.max(v)
        if not np.isfinite(m):
            out.append(-np.inf)
            continue
        e = np.exp(v - m)
        s = (np.sum(e) - 0.5 * (e[0] + e[-1])) * h
        out.append(m + math.log(s))
    return out


def grid(logdens, kind, scale=1.0):
    """normalised trapezoid weights of the density on the window: returns (log t, log(1-t) | None, weights)"""
    if kind == "unit":
        def tr(x):
            lt = -np.logaddexp(0.0, -x)
            l1t = -np.logaddexp(0.0, x)
            return lt, l1t, lt + l1t
        lo, hi = -745.0, 745.0
    else:
        def tr(x):
            lt = x + math.log(scale)
            return lt, None, lt
        lo, hi = -700.0, 700.0

    def g(x):
        lt, l1t, lj = tr(x)
        with np.errstate(all="ignore"):
            return logdens(lt, l1t) + lj
    w = _window(g, lo, hi)
    if w is None:
        return None
    x = np.linspace(w[0], w[1], NPTS)
    lt, l1t, lj = tr(x)
    with np.errstate(all="ignore"):
        v = logdens(lt, l1t) + lj
    v = np.where(np.isnan(v), -np.inf, v)
    e = np.exp(v - np.max(v))
    e[0] *= 0.5
    e[-1] *= 0.5
    return lt, l1t, e / np.sum(e)


def mean_var(wts, t):
    m = float(np.sum(wts * t))
    return m, float(np.sum(wts * (t - m) ** 2))


def _log1m_zu(z, lu, l1u):
    """log(1 - z u) computed as log((1 - z) + z (1 - u)) (stable for u -> 1, z -> 1; z < 1)"""
    u, omu = np.exp(lu), np.exp(l1u)
    return np.log((1.0 - z) + z * omu) if z >= 0 else np.log1p(-z * u)


# ----------------------------------------------------------------------------- one free age

def rootward_true(t_j, a, b, y, mu):
    """parent above a fixed child: density ∝ (t-t_j)^y e^{-mu (t-t_j)} t^(a-1) e^{-b t}, t > t_j.  (E t, Var t)"""
    r = mu + b
    if t_j == 0.0:
        s = a + y
        return s / r, s / r**2
    sc = max(t_j, (a + y) / r)

    def ld(lv, _):
        v = np.exp(lv)
        return y * lv - r * v + (a - 1.0) * np.log(v + t_j)
    G = grid(ld, "pos", sc)
    if G is None:
        return None
    m, v = mean_var(G[2], np.exp(G[0]))
    return t_j + m, v


def leafward_true(t_i, a, b, y, mu):
    """child below a fixed parent: t_j = u t_i, density ∝ (1-u)^y u^(a-1) e^{(mu-b) t_i u}"""
    c = (mu - b) * t_i

    def ld(lu, l1u):
        return y * l1u + (a - 1.0) * lu + c * np.exp(lu)
    G = grid(ld, "unit")
    if G is None:
        return None
    m, v = mean_var(G[2], np.exp(G[0]))
    return t_i * m, t_i**2 * v


def sideways_true(t_i, a, b, y, mu):
    """free parent of a block with the other parent fixed: density ∝ (t_i+v)^y v^(a-1) e^{-(mu+b) v}"""
    r = mu + b
    sc = max(1e-300, (a + y) / r)

    def ld(lv, _):
        v = np.exp(lv)
        return y * np.log(t_i + v) - r * v + (a - 1.0) * lv
    G = grid(ld, "pos", sc)
    if G is None:
        return None
    return mean_var(G[2], np.exp(G[0]))


def mutation_sideways_true(t_i, a, b, y, mu):
    """(P[m under i], E t_m, Var t_m)"""
    r = mu + b
    sc = max(1e-300, (a + y) / r)

    def ld(lv, _):
        v = np.exp(lv)
        return y * np.log(t_i + v) - r * v + (a - 1.0) * lv

    def f_pr(lv, _):
        return math.log(t_i) - np.log(t_i + np.exp(lv))

    def f_m1(lv, _):
        v = np.exp(lv)
        return np.log(t_i**2 + v**2) - math.log(2) - np.log(t_i + v)

    def f_m2(lv, _):
        v = np.exp(lv)
        return np.log(t_i**3 + v**3) - math.log(3) - np.log(t_i + v)
    I = log_integrals(ld, [lambda lv, _: 0 * lv, f_pr, f_m1, f_m2], "pos", sc)
    if I is None:
        return None
    pr, m1, m2 = (math.exp(I[k] - I[0]) for k in (1, 2, 3))
    return pr, m1, m2 - m1 * m1


# ----------------------------------------------------------------------------- two free ages, edge

def _edge_J(a_i, b_i, a_j, b_j, y, mu, terms):
    """terms: list of (m, n): returns E[t_i^m t_j^n]"""
    T = mu + b_i
    z = (mu - b_j) / T
    B = a_i + a_j + y
    ks = sorted({m + n for m, n in terms} | {0})

    outs = {}
    for k in ks:
        def ld(lu, l1u, k=k):
            return (a_j - 1.0) * lu + y * l1u - (B + k) * _log1m_zu(z, lu, l1u)
        ns = sorted({n for m, n in terms if m + n == k} | ({0} if k == 0 else set()))
        I = log_integrals(ld, [lambda lu, _, n=n: n * lu for n in ns], "unit")
        if I is None:
            return None
        for n, v in zip(ns, I):
            outs[(k, n)] = v
    base = outs[(0, 0)]
    res = []
    for m, n in terms:
        k = m + n
        res.append(math.exp(gammaln(B + k) - gammaln(B) - k * math.log(T) + outs[(k, n)] - base))
    return res


def moments_true(a_i, b_i, a_j, b_j, y, mu):
    """(E t_i, Var t_i, E t_j, Var t_j)"""
    r = _edge_J(a_i, b_i, a_j, b_j, y, mu, [(1, 0), (2, 0), (0, 1), (0, 2)])
    if r is None:
        return None
    return r[0], r[1] - r[0]**2, r[2], r[3] - r[2]**2


def mutation_moments_true(a_i, b_i, a_j, b_j, y, mu):
    """mutation uniform on (t_j, t_i): E t_m = E (t_i+t_j)/2, E t_m^2 = E (t_i^2 + t_i t_j + t_j^2)/3"""
    r = _edge_J(a_i, b_i, a_j, b_j, y, mu, [(1, 0), (0, 1), (2, 0), (1, 1), (0, 2)])
    if r is None:
        return None
    m1 = (r[0] + r[1]) / 2
    m2 = (r[2] + r[3] + r[4]) / 3
    return m1, m2 - m1 * m1


# ----------------------------------------------------------------------------- two free ages, block

def _block(a_i, b_i, a_j, b_j, y, mu, terms):
    """terms: list of (k, logg) with logg(lw, l1w) -> log g(w); returns E[s^k g(w)], t_i = s w, t_j = s (1-w)"""
    ri, rj = mu + b_i, mu + b_j
    B = a_i + a_j + y

    def lrate(lw, l1w):
        return np.logaddexp(math.log(ri) + lw, math.log(rj) + l1w)
    res = []
    base = None
    for k in sorted({k for k, _ in terms} | {0}):
        def ld(lw, l1w, k=k):
            return (a_i - 1.0) * lw + (a_j - 1.0) * l1w - (B + k) * lrate(lw, l1w)
        gs = [g for kk, g in terms if kk == k]
        if k == 0:
            gs = [lambda lw, l1w: 0 * lw] + gs
        I = log_integrals(ld, gs, "unit")
        if I is None:
            return None
        if k == 0:
            base = I[0]
            I = I[1:]
        for v in I:
            res.append((k, v))
    out = []
    it = {}
    for k, v in res:
        it.setdefault(k, []).append(v)
    for k, g in terms:
        v = it[k].pop(0)
        out.append(math.exp(gammaln(B + k) - gammaln(B) + v - base))
    return out


def unphased_true(a_i, b_i, a_j, b_j, y, mu):
    r = _block(a_i, b_i, a_j, b_j, y, mu, [
        (1, lambda lw, l1w: lw), (1, lambda lw, l1w: l1w), (2, lambda lw, l1w: 2 * lw), (2, lambda lw, l1w: 2 * l1w)])
    if r is None:
        return None
    return r[0], r[2] - r[0]**2, r[1], r[3] - r[1]**2


def mutation_unphased_true(a_i, b_i, a_j, b_j, y, mu):
    """(P[m under i], E t_m, Var t_m): pr = E w, E t_m = E s (w^2 + (1-w)^2)/2, E t_m^2 = E s^2 (w^3 + (1-w)^3)/3"""
    r = _block(a_i, b_i, a_j, b_j, y, mu, [
        (0, lambda lw, l1w: lw),
        (1, lambda lw, l1w: np.logaddexp(2 * lw, 2 * l1w) - math.log(2)),
        (2, lambda lw, l1w: np.logaddexp(3 * lw, 3 * l1w) - math.log(3))])
    if r is None:
        return None
    return r[0], r[1], r[2] - r[1]**2


# ----------------------------------------------------------------------------- mpmath cross-check of the integrator

def selfcheck(rng, n=6):
    """max relative deviation of the integrator from mpmath.quad on a few random one-free-age cases"""
    import mpmath as mp
    mp.mp.dps = 30
    worst = 0.0
    for _ in range(n):
        t_j = float(np.exp(rng.uniform(-2, 4)))
        a, b = float(np.exp(rng.uniform(-1, 4))), float(np.exp(rng.uniform(-6, 0)))
        y, mu = float(rng.integers(0, 12)), float(np.exp(rng.uniform(-6, 0)))
        mine = rootward_true(t_j, a, b, y, mu)

        def dens(t):
            return (t - t_j)**y * mp.e**(-mu * (t - t_j)) * t**(a - 1) * mp.e**(-b * t)
        mode = max(t_j * 1.001, (a + y) / (mu + b))
        pts = [t_j, mode, 4 * mode + 4 * t_j, mp.inf]
        z0 = mp.quad(dens, pts)
        z1 = mp.quad(lambda t: t * dens(t), pts)
        z2 = mp.quad(lambda t: t * t * dens(t), pts)
        mn, va = z1 / z0, z2 / z0 - (z1 / z0)**2
        worst = max(worst, abs(mine[0] - float(mn)) / float(mn), abs(mine[1] - float(va)) / float(va))
    return worst


# ----------------------------------------------------------------------------- the code's algebra with EXACT special functions

class ExactSpecial:
    """While active, tsdate.approx / tsdate.hypergeo run as pure Python (`py_func`) with the three Laplace
    approximations replaced by mpmath's exact 2F1 / 1F1 / U (50 digits).  The moment kernels then are *exact*
    closed forms: whatever they return must agree with quadrature of the stated density to ~1e-8, for means AND
    variances.  This isolates the algebra around the special functions (signs, factors, parameter shifts) from the
    accuracy of the Laplace approximation."""

    def __enter__(self):
        import mpmath as mp
        import tsdate.approx
        import tsdate.hypergeo
        mp.mp.dps = 50
        self.saved = []

        def h2f1(a, b, c, x):
            assert c > 0 and a >= 0 and b >= 0 and c >= a and x < 1
            return float(mp.log(mp.hyp2f1(a, b, c, x)))

        def h1f1(a, b, x):
            assert b > a > 0
            return float(mp.log(mp.hyp1f1(a, b, x)))

        def hu(a, b, x):
            assert b >= a > 0 and x > 0
            u0 = mp.hyperu(a, b, x)
            return float(mp.log(u0)), float(-a * mp.hyperu(a + 1, b + 1, x) / u0)

        def safe_exp(x):
            try:
                return math.exp(x)
            except OverflowError:
                return math.inf

        for mod in (tsdate.approx, tsdate.hypergeo):
            for k, v in list(vars(mod).items()):
                if hasattr(v, "py_func"):
                    self.saved.append((mod, k, v))
                    setattr(mod, k, v.py_func)
            if hasattr(mod, "exp"):
                self.saved.append((mod, "exp", mod.exp))
                mod.exp = safe_exp
        for k, f in (("_hyp2f1_laplace", h2f1), ("_hyp1f1_laplace", h1f1), ("_hyperu_laplace", hu)):
            setattr(tsdate.hypergeo, k, f)
        return self

    def __exit__(self, *a):
        for mod, k, v in reversed(self.saved):
            setattr(mod, k, v)

    def call(self, name, *args):
        import tsdate.approx
        with np.errstate(all="ignore"):
            return getattr(tsdate.approx, name)(*args)
