"""
C34 support: run the real `tsdate.cli.tsdate_main` (a) with the API functions stubbed by recorders
(plumbing only, fast: the whole option lattice) and (b) for real on files; encode argparse
namespaces for the Lean CLI model (Driver/Cli.lean) and decode its replies.
"""

import contextlib
import io
import json
import os
import shutil

import numpy as np

from . import common
from .common import f2h

# documented option -> API keyword (independent of the model; used by the stage-C oracle)
DATE_API_NAME = {
    "-m": "mutation_rate", "--mutation-rate": "mutation_rate", "-r": "recombination_rate",
    "--recombination-rate": "recombination_rate", "-e": "eps", "--epsilon": "eps",
    "-b": "min_branch_length", "--min-branch-length": "min_branch_length", "--method": "method",
    "-p": "progress", "--progress": "progress", "--rescaling-intervals": "rescaling_intervals",
    "--max-iterations": "max_iterations", "-n": "population_size", "--population_size": "population_size",
    "-t": "num_threads", "--num-threads": "num_threads", "--probability-space": "probability_space",
}
PREPROCESS_API_NAME = {
    "--minimum_gap": "minimum_gap", "--erase-flanks": "erase_flanks", "--trim_telomeres": "erase_flanks",
    "--split-disjoint": "split_disjoint",
}
TRUE_WORDS = ["True", "true", "TRUE", "t", "T", "1", "yes", "Yes", "y", "Y"]
FALSE_WORDS = ["False", "false", "FALSE", "f", "F", "0", "no", "No", "n", "N"]
BAD_WORDS = ["maybe", "", "2", "tru", "none", "None", " false"]


# ----------------------------------------------------------------------------- tokens

def tok(v):
    if v is None:
        return "N"
    if isinstance(v, (bool, np.bool_)):
        return "B1" if v else "B0"
    if isinstance(v, (int, np.integer)):
        return f"I{int(v)}"
    if isinstance(v, (float, np.floating)):
        return "F" + f2h(float(v))
    if isinstance(v, str):
        return "S" + v.encode().hex()
    raise TypeError(f"no token for {type(v).__name__}")


def encode_ns(cid, sub, ns):
    lines = [f"case {cid}", f"sub {sub}"]
    for k, v in ns.items():
        if k in ("runner", "subcommand"):
            continue
        lines.append(f"arg {k} {tok(v)}")
    lines.append("end")
    return "\n".join(lines) + "\n"


def encode_conv(cid, ty, s):
    return f"case {cid}\nconv {ty} {s.encode().hex()}\nend\n"


def parse_reply(line):
    p = line.split()
    if len(p) < 2:
        return None, None
    cid = p[0]
    if p[1] == "bad-op":
        return cid, ("bad-op",)
    if p[1] == "conv":
        return cid, ("conv", p[2])
    if p[1] == "error":
        msg = bytes.fromhex(p[2]).decode() if len(p) > 2 else ""
        return cid, ("error", msg)
    if p[1] == "call":
        kws = [tuple(kv.split("=", 1)) for kv in p[5:]]
        return cid, ("call", p[2], p[3], p[4], kws)
    return cid, ("?",)


def run_model(texts):
    if not texts:
        return {}
    lines = common.lean_driver("Cli", "".join(texts))
    out = {}
    for ln in lines:
        cid, rep = parse_reply(ln)
        if cid is not None:
            out[cid] = rep
    return out


# ----------------------------------------------------------------------------- stubbed runs

class _FakeTs:
    def __init__(self, log, src):
        self.log, self.src = log, src

    def dump(self, path):
        self.log["dump"] = path


@contextlib.contextmanager
def quiet_io():
    with contextlib.redirect_stderr(io.StringIO()), contextlib.redirect_stdout(io.StringIO()):
        yield


def stub_run(argv):
    """tsdate_main(argv) with tskit.load / tsdate.date / tsdate.preprocess_ts replaced by recorders.
    Returns ('parse-error',) | ('error', msg) | ('call', fn, load_path, dump_path, [(kw, tok)...]) |
    ('raised', ExcName, msg)."""
    import tsdate
    import tsdate.cli as cli
    import tskit
    log = {}
    orig = (tskit.load, tsdate.date, tsdate.preprocess_ts)

    def fake_load(path, *a, **k):
        log["load"] = path
        return _FakeTs(log, path)

    def mk(fn):
        def f(ts, **kw):
            log["fn"] = fn
            log["ts_is_loaded"] = isinstance(ts, _FakeTs) and ts.src == log.get("load")
            log["kwargs"] = [(k, tok(v)) for k, v in kw.items()]
            return _FakeTs(log, None)
        return f

    tskit.load, tsdate.date, tsdate.preprocess_ts = fake_load, mk("tsdate.date"), mk("tsdate.preprocess_ts")
    try:
        with quiet_io():
            try:
                cli.tsdate_main(argv)
            except SystemExit as e:
                if isinstance(e.code, str):
                    return ("error", e.code)
                return ("parse-error",) if e.code else ("exit0",)
            except Exception as e:  # noqa: BLE001
                return ("raised", type(e).__name__, str(e)[:200])
    finally:
        tskit.load, tsdate.date, tsdate.preprocess_ts = orig
    if "fn" not in log or "dump" not in log:
        return ("no-call",)
    if not log.get("ts_is_loaded"):
        return ("call-on-wrong-ts",)
    return ("call", log["fn"], tok(log["load"]), tok(log["dump"]), log["kwargs"])


def parse_only(argv):
    """vars(namespace) from the real parser, or None on a parse error."""
    import tsdate.cli as cli
    with quiet_io():
        try:
            return vars(cli.tsdate_cli_parser().parse_args(argv))
        except SystemExit:
            return None


def messages_match(model_msg, impl_msg):
    """error_exit prefixes the message with argv[0]; f-string holes are `{}` in the model."""
    parts = [p for p in model_msg.split("{}") if p]
    pos = 0
    for p in parts:
        i = impl_msg.find(p, pos)
        if i < 0:
            return False
        pos = i + len(p)
    return True


# ----------------------------------------------------------------------------- lattices

def date_lattice(rng):
    """Every given/not-given combination of the `date` options x method choice. Yields
    (argv, given) with given = {flag: python value} of the options put on the command line."""
    vals = {
        "-m": [float(rng.choice([1e-8, 2.5e-3, 1.0]))], "-r": [float(rng.choice([1e-8, 3.0]))],
        "-e": [float(rng.choice([1e-6, 0.5, 1e-10]))], "-b": [float(rng.choice([1e-6, 0.25]))],
        "--rescaling-intervals": [int(rng.choice([0, 3, 1000]))], "--max-iterations": [int(rng.choice([1, 7]))],
        "-n": [float(rng.choice([100.0, 12345.5]))], "-t": [int(rng.choice([1, 2]))],
        "--probability-space": [str(rng.choice(["linear", "logarithmic"]))],
    }
    alias = {"-m": "--mutation-rate", "-r": "--recombination-rate", "-e": "--epsilon", "-b": "--min-branch-length",
             "-n": "--population_size", "-t": "--num-threads", "-p": "--progress"}
    flags = list(vals)
    for method in [None, "inside_outside", "maximization", "variational_gamma"]:
        for mask in range(1 << len(flags)):
            for prog in (False, True):
                for dep in (False, True):
                    argv, given = ["date", "in.trees", "out.trees"], {}
                    if dep:
                        argv.append("1000")
                    if method is not None:
                        argv += ["--method", method]
                        given["--method"] = method
                    for i, f in enumerate(flags):
                        if mask >> i & 1:
                            v = vals[f][0]
                            name = alias[f] if (f in alias and (mask + i) % 3 == 0) else f
                            argv += [name, repr(v) if not isinstance(v, str) else v]
                            given[f] = v
                    if prog:
                        argv.append(alias["-p"] if mask % 2 else "-p")
                        given["-p"] = True
                    yield argv, given, dep


def preprocess_lattice(rng):
    words = [None] + TRUE_WORDS + FALSE_WORDS + BAD_WORDS
    for gap in (None, float(rng.choice([10.0, 250.5, 1e6]))):
        for ef in words:
            for sd in words:
                argv, given = ["preprocess", "in.trees", "out.trees"], {}
                if gap is not None:
                    argv += ["--minimum_gap", repr(gap)]
                    given["--minimum_gap"] = gap
                if ef is not None:
                    flag = "--trim_telomeres" if (len(ef) + (0 if sd is None else len(sd))) % 4 == 0 else "--erase-flanks"
                    argv += [flag, ef]
                    given["--erase-flanks"] = ef
                if sd is not None:
                    argv += ["--split-disjoint", sd]
                    given["--split-disjoint"] = sd
                yield argv, given


def word_value(w):
    if w in TRUE_WORDS:
        return True
    if w in FALSE_WORDS:
        return False
    return None


# ----------------------------------------------------------------------------- real runs on files

def workdir():
    d = common.CACHE / f"c34-{os.getpid()}"
    d.mkdir(parents=True, exist_ok=True)
    return d


def cleanup():
    shutil.rmtree(common.CACHE / f"c34-{os.getpid()}", ignore_errors=True)


def real_cli(argv, out_path):
    """Run the real CLI in-process. Returns dict(ok, exc, msg, wrote)."""
    import tsdate.cli as cli
    if os.path.exists(out_path):
        os.remove(out_path)
    res = dict(ok=False, exc=None, msg="", wrote=False)
    with quiet_io():
        try:
            cli.tsdate_main(argv)
            res["ok"] = True
        except SystemExit as e:
            if e.code in (0, None):
                res["ok"] = True
            else:
                res["exc"], res["msg"] = "SystemExit", str(e.code)[:300]
        except BaseException as e:  # noqa: BLE001
            if isinstance(e, (KeyboardInterrupt, MemoryError)):
                raise
            res["exc"], res["msg"] = type(e).__name__, str(e)[:300]
    res["wrote"] = os.path.exists(out_path)
    return res


def real_api(fn_name, ts, kwargs):
    import tsdate
    with quiet_io():
        try:
            out = getattr(tsdate, fn_name)(ts, **kwargs)
            return dict(ok=True, out=out, exc=None, msg="")
        except BaseException as e:  # noqa: BLE001
            if isinstance(e, (KeyboardInterrupt, MemoryError)):
                raise
            return dict(ok=False, out=None, exc=type(e).__name__, msg=str(e)[:300])


def prov_records(ts):
    out = []
    for p in ts.provenances():
        try:
            r = json.loads(p.record)
        except ValueError:
            r = {"raw": p.record}
        if isinstance(r, dict):
            r = {k: v for k, v in r.items() if k != "resources"}
        out.append(r)
    return out


def compare_outputs(a, b):
    """None if equal modulo provenance timing, else a short description of the first difference."""
    ta, tb = a.dump_tables(), b.dump_tables()
    if not ta.equals(tb, ignore_provenance=True):
        for name in ("nodes", "edges", "sites", "mutations", "individuals", "populations", "migrations"):
            if getattr(ta, name) != getattr(tb, name):
                return f"tables:{name}"
        return "tables:other"
    pa, pb = prov_records(a), prov_records(b)
    if len(pa) != len(pb):
        return f"provenance:count {len(pa)} vs {len(pb)}"
    for i, (x, y) in enumerate(zip(pa, pb)):
        if x != y:
            kx, ky = x.get("parameters", {}), y.get("parameters", {})
            diff = sorted(k for k in set(kx) | set(ky) if kx.get(k) != ky.get(k))
            return f"provenance:record {i} parameters {diff}" if diff else f"provenance:record {i}"
    return None
