"""
Shared code of the EP cluster (C21, C20, C05).

* `rebind_observed()`: subclass of `tsdate.variational.ExpectationPropagation` whose `iterate` calls the real
  `iterate` and then an observer; bound over `tsdate.variational.ExpectationPropagation` (looked up at call time by
  `tsdate.core`), so real `tsdate.date()` calls are observed without any source hook.
* `LeanEP`: interactive line-protocol session with `lean/Driver/EP.lean`.  The Lean model replays the bookkeeping
  (`prep` / `stepApply` / `prior` / `rescaleFactors` of `Model/EP.lean`) and asks *this process* for every projection
  (`CALL ...`), which is answered by the real `tsdate.approx.*_projection` functions.
* state dumps, encoders, bit-for-bit comparison, input generators that reach every branch of `propagate_likelihood`.
"""

import contextlib
import subprocess
from fractions import Fraction

import numpy as np

from . import common, gen
from .common import Violation, f2h, h2f


# ----------------------------------------------------------------------------- observing the real class

@contextlib.contextmanager
def rebind_observed(observer):
    """observer(ep, kwargs_of_iterate) is called after every real `iterate`."""
    import tsdate.variational as V
    orig = V.ExpectationPropagation

    class ObservedEP(orig):
        def iterate(self, **kw):
            super().iterate(**kw)
            observer(self, kw)

    V.ExpectationPropagation = ObservedEP
    try:
        yield ObservedEP
    finally:
        V.ExpectationPropagation = orig


def dump_state(ep):
    f = ep.factors
    return dict(post=np.array(ep.node_posterior, copy=True), scale=np.array(f.scale, copy=True),
                edge=np.array(f.edge, copy=True), block=np.array(f.block, copy=True),
                node=np.array(f.node, copy=True))


def assemble_impl(ep):
    import tsdate.variational as V
    return V._assemble_factors(ep.factors)


def static_of(ep):
    """Everything `iterate` reads that is not mutable EP state."""
    c = ep.node_constraints
    return dict(
        fixed=(c[:, 0] == c[:, 1]), lower=np.array(c[:, 0], copy=True),
        ep=np.array(ep.edge_parents, dtype=np.int64), ec=np.array(ep.edge_children, dtype=np.int64),
        bj=np.array(ep.block_nodes[0], dtype=np.int64), bk=np.array(ep.block_nodes[1], dtype=np.int64),
        elik=np.array(ep.edge_likelihoods, copy=True), blik=np.array(ep.block_likelihoods, copy=True),
        border=np.array(ep.block_order, dtype=np.int64), eorder=np.array(ep.edge_order, dtype=np.int64),
        free=np.array(ep.unconstrained_roots, dtype=bool),
    )


# ----------------------------------------------------------------------------- protocol

def _num(x, mode):
    return f2h(x) if mode == "float" else common.f2q(x)


def _unnum(s, mode):
    return h2f(s) if mode == "float" else float(common.q2frac(s))


def encode_case(cid, st, *, max_shape, min_step, tiny, regularise, iters, mode="float", reltol=1e-8, maxitt=10,
                star=False):
    n = lambda x: _num(x, mode)  # noqa: E731
    lines = [
        f"case {cid}", f"mode {mode}", f"cfg {n(max_shape)} {n(min_step)} {n(tiny)}",
        "fixed " + " ".join("1" if b else "0" for b in st["fixed"]),
        "lower " + " ".join(n(x) for x in st["lower"]),
        "ep " + " ".join(str(int(x)) for x in st["ep"]), "ec " + " ".join(str(int(x)) for x in st["ec"]),
        "bj " + " ".join(str(int(x)) for x in st["bj"]), "bk " + " ".join(str(int(x)) for x in st["bk"]),
        "elik " + " ".join(n(x) for x in np.asarray(st["elik"]).reshape(-1)),
        "blik " + " ".join(n(x) for x in np.asarray(st["blik"]).reshape(-1)),
        "border " + " ".join(str(int(x)) for x in st["border"]),
        "eorder " + " ".join(str(int(x)) for x in st["eorder"]),
        f"reg {1 if regularise else 0}",
        "free " + " ".join("1" if b else "0" for b in st["free"]),
        f"cnt {n(float(np.sum(st['free'])))}", f"reltol {n(reltol)}", f"maxitt {int(maxitt)}",
        f"iters {int(iters)}",
    ]
    if star:
        lines.append("star 1")
    lines.append("end")
    return "\n".join(lines) + "\n"


def real_projection(kind, unphased, age, cavP, cavC, lik):
    """Answer a CALL with the real wrappers of tsdate/approx.py (same dispatch as propagate_likelihood)."""
    from tsdate import approx
    cavP = np.array(cavP, dtype=float)
    cavC = np.array(cavC, dtype=float)
    lik = np.array(lik, dtype=float)
    if kind == "leaf":
        f = approx.sideways_projection if unphased else approx.leafward_projection
        logl, pc = f(float(age), cavC, lik)
        return logl, cavP, np.array(pc)
    if kind == "root":
        f = approx.sideways_projection if unphased else approx.rootward_projection
        logl, pp = f(float(age), cavP, lik)
        return logl, np.array(pp), cavC
    if kind == "twin":
        logl, pp = approx.twin_projection(cavP, lik)
        return logl, np.array(pp), cavC
    if kind == "both":
        f = approx.unphased_projection if unphased else approx.gamma_projection
        logl, pp, pc = f(cavP, cavC, lik)
        return logl, np.array(pp), np.array(pc)
    raise ValueError(kind)


class LeanTimeout(Exception):
    pass


class LeanEP:
    """One interactive driver process; `run(case_text, mode)` returns (status, states, calls)."""

    def __init__(self):
        # own process group: `lake env` spawns `lean` as a child; killing only the wrapper would leave it running
        self.p = subprocess.Popen(["lake", "env", "lean", "--run", "Driver/EP.lean"], cwd=common.LEAN_DIR,
                                  stdin=subprocess.PIPE, stdout=subprocess.PIPE, stderr=subprocess.PIPE,
                                  text=True, bufsize=1, start_new_session=True)

    def kill(self):
        import os
        import signal
        try:
            os.killpg(os.getpgid(self.p.pid), signal.SIGKILL)
        except (ProcessLookupError, PermissionError):
            pass

    def close(self):
        try:
            self.p.stdin.close()
            self.p.wait(timeout=20)
        except Exception:  # noqa: BLE001
            self.kill()

    def __enter__(self):
        return self

    def __exit__(self, *a):
        self.close()

    def run(self, text, mode="float", projection=real_projection, tamper=None, timeout=None):
        """Returns dict(status='DONE'|'BAD <why>', states=[...], calls=[(kind, unphased, skipped)]).
        With `timeout` (seconds) the driver is killed when the case takes longer (exact rational runs can blow up);
        the session is then unusable and `LeanTimeout` is raised."""
        timer = None
        if timeout is not None:
            import threading
            self.timed_out = False

            def _kill():
                self.timed_out = True
                self.kill()

            timer = threading.Timer(timeout, _kill)
            timer.start()
        try:
            return self._run(text, mode, projection, tamper)
        except common.LeanError:
            if timeout is not None and getattr(self, "timed_out", False):
                raise LeanTimeout()
            raise
        finally:
            if timer is not None:
                timer.cancel()

    def _run(self, text, mode, projection, tamper):
        self.p.stdin.write(text)
        self.p.stdin.flush()
        states, calls = [], []
        raised = None
        while True:
            line = self.p.stdout.readline()
            if not line:
                err = self.p.stderr.read()[-2000:]
                raise common.LeanError(f"EP driver died: {err}")
            w = line.split()
            if not w:
                continue
            if w[0] == "CALL":
                kind, unph = w[1], w[2] == "1"
                v = [_unnum(x, mode) for x in w[3:]]
                age, cavP, cavC, lik = v[0], v[1:3], v[3:5], v[5:7]
                try:
                    logl, pp, pc = projection(kind, unph, age, cavP, cavC, lik)
                except Exception as e:  # noqa: BLE001  the real wrapper raised (an assert inside tsdate.hypergeo ...)
                    raised = type(e).__name__
                    self.p.stdin.write("raised\n")        # not a number: the driver ends the case with `BAD protocol`
                    self.p.stdin.flush()
                    calls.append((kind, unph, True))
                    continue
                if tamper is not None:
                    pp, pc = tamper(len(calls), kind, pp, pc)
                calls.append((kind, unph, bool(np.isnan(logl))))
                self.p.stdin.write(" ".join(_num(x, mode) for x in (pp[0], pp[1], pc[0], pc[1])) + "\n")
                self.p.stdin.flush()
            elif w[0] == "STATE":
                states.append(parse_state(w, mode))
            elif w[0] == "DONE":
                return dict(status="DONE", states=states, calls=calls)
            elif w[0] == "BAD":
                if raised is not None:
                    return dict(status=f"raised {raised}", states=states, calls=calls)
                return dict(status="BAD " + " ".join(w[2:]), states=states, calls=calls)
            else:
                raise common.LeanError(f"unexpected driver line: {line[:200]}")


def parse_state(w, mode):
    # STATE id it post ... scale ... edge ... block ... node ... asm ... exact b tiny k
    keys = ["post", "scale", "edge", "block", "node", "asm", "exact", "tiny"]
    idx = {k: w.index(k, 3) for k in keys}
    order = sorted(keys, key=lambda k: idx[k])
    out = {}
    for a, k in enumerate(order):
        lo = idx[k] + 1
        hi = idx[order[a + 1]] if a + 1 < len(order) else len(w)
        out[k] = w[lo:hi]
    st = dict(it=int(w[2]), exact=out["exact"] == ["1"], tiny=int(out["tiny"][0]))
    conv = (lambda xs: np.array([h2f(x) for x in xs])) if mode == "float" else \
        (lambda xs: [common.q2frac(x) for x in xs])
    for k in keys[:-2]:
        st[k] = conv(out[k])
    return st


def states_equal_bits(impl, model):
    """Bit-for-bit comparison of one dumped implementation state with one model state (mode float).
    Returns list of (field, number of differing entries, max relative difference)."""
    diffs = []
    for k in ("post", "scale", "edge", "block", "node"):
        a = np.asarray(impl[k], dtype=float).reshape(-1)
        b = np.asarray(model[k], dtype=float).reshape(-1)
        if a.shape != b.shape:
            diffs.append((k, -1, float("inf")))
            continue
        neq = [i for i in range(a.size) if f2h(a[i]) != f2h(b[i]) and not (a[i] == 0.0 and b[i] == 0.0)]
        if neq:
            with np.errstate(all="ignore"):
                rel = np.nanmax(np.abs(a[neq] - b[neq]) / np.maximum(np.abs(a[neq]), 1e-300))
            diffs.append((k, len(neq), float(rel)))
    return diffs


# ----------------------------------------------------------------------------- inputs

def tiny_const():
    import tsdate.variational as V
    return float(V.TINY)


def unphase_individuals(ts):
    """Make sure the tree sequence has individuals (ploidy 2 simulations do)."""
    return ts.num_individuals > 0


def make_twin_ts(rng, n_ind=3, L=1000.0, muts=12):
    """Diploid individuals whose two genomes are siblings (a cherry): with singletons_phased=False every singleton
    block has the same parent at both ends (branch `twin`)."""
    import tskit
    t = tskit.TableCollection(sequence_length=L)
    for i in range(n_ind):
        ind = t.individuals.add_row()
        t.nodes.add_row(flags=tskit.NODE_IS_SAMPLE, time=0, individual=ind)
        t.nodes.add_row(flags=tskit.NODE_IS_SAMPLE, time=0, individual=ind)
    par = []
    for i in range(n_ind):
        p = t.nodes.add_row(flags=0, time=1.0 + i)
        par.append(p)
        t.edges.add_row(0, L, p, 2 * i)
        t.edges.add_row(0, L, p, 2 * i + 1)
    top = par[0]
    for k in range(1, n_ind):
        new = t.nodes.add_row(flags=0, time=10.0 + k)
        t.edges.add_row(0, L, new, top)
        t.edges.add_row(0, L, new, par[k])
        top = new
    pos = sorted(set(float(int(x)) for x in rng.uniform(0, L, size=muts)))
    nodes = list(range(t.nodes.num_rows - 1))
    for x in pos:
        s = t.sites.add_row(x, "A")
        # many singletons (on sample nodes) plus some internal mutations
        u = int(rng.integers(0, 2 * n_ind)) if rng.random() < 0.7 else int(rng.choice(nodes))
        t.mutations.add_row(s, u, "T", time=tskit.UNKNOWN_TIME)
    t.sort()
    t.build_index()
    t.compute_mutation_parents()
    return t.tree_sequence()


def gen_input(rng, want=None):
    """A tree sequence + EP constructor options reaching a chosen class of branches.
    Returns (ts, dict(mutation_rate, singletons_phased), label)."""
    want = want or str(rng.choice(["plain", "plain", "historical", "internal", "unphased", "unphased", "twin",
                                   "polytomy", "sparse"]))
    if want == "bigstar":
        # many children under one parent: with huge counts and a small max_shape every update caps the posterior and
        # multiplies factors.scale by ~1e-10, so that the TINY renormalisation inside the loop fires
        ts = gen.star_ts(rng, n=int(rng.integers(10, 18)), trees=int(rng.choice([1, 2])))
        return ts, dict(mutation_rate=1e-3, singletons_phased=True), want
    if want == "twin":
        ts = make_twin_ts(rng, n_ind=int(rng.integers(1, 4)), muts=int(rng.integers(4, 30)))
        return ts, dict(mutation_rate=1e-3 * float(rng.choice([0.1, 1, 10])), singletons_phased=False), want
    kw = dict(n=int(rng.integers(2, 7)), trees=int(rng.choice([1, 2, 3, 5, 8])))
    phased = True
    if want == "historical":
        ts, info = gen.gen_ts(rng, historical=1.0, **kw)
    elif want == "internal":
        ts, info = gen.gen_ts(rng, internal_samples=1.0, historical=0.3, **kw)
    elif want == "unphased":
        ts, info = gen.gen_ts(rng, ploidy=2, n=int(rng.integers(1, 4)), trees=kw["trees"],
                              muts_per_edge=float(rng.choice([1, 3, 8])))
        phased = False
    elif want == "polytomy":
        ts, info = gen.gen_ts(rng, polytomy=1.0, **kw)
    elif want == "sparse":
        ts, info = gen.gen_ts(rng, muts_per_edge=float(rng.choice([0.05, 0.3])), **kw)
    else:
        ts, info = gen.gen_ts(rng, **kw)
    mu = info["mu"] * float(rng.choice([1, 1, 1e-3, 1e3, 1e-6]))
    return ts, dict(mutation_rate=mu, singletons_phased=phased), want


def branch_counts(st):
    """How many edges / blocks fall in each branch of propagate_likelihood (from the static data)."""
    out = {}
    fx = st["fixed"]
    for tag, P, C in (("edge", st["ep"], st["ec"]), ("block", st["bj"], st["bk"])):
        for p, c in zip(P, C):
            if fx[p] and fx[c]:
                b = "skip"
            elif fx[p]:
                b = "leaf"
            elif fx[c]:
                b = "root"
            elif p == c:
                b = "twin"
            else:
                b = "both"
            out[f"{tag}:{b}"] = out.get(f"{tag}:{b}", 0) + 1
    return out


def state_replay(st, **kw):
    """Self-contained JSON description of a static EP input."""
    return dict(kind="ep-static",
                fixed=[int(b) for b in st["fixed"]], lower=[f2h(x) for x in st["lower"]],
                ep=[int(x) for x in st["ep"]], ec=[int(x) for x in st["ec"]],
                bj=[int(x) for x in st["bj"]], bk=[int(x) for x in st["bk"]],
                elik=[f2h(x) for x in np.asarray(st["elik"]).reshape(-1)],
                blik=[f2h(x) for x in np.asarray(st["blik"]).reshape(-1)],
                border=[int(x) for x in st["border"]], eorder=[int(x) for x in st["eorder"]],
                free=[int(b) for b in st["free"]], **kw)


def static_from_replay(d):
    return dict(fixed=np.array(d["fixed"], dtype=bool), lower=np.array([h2f(x) for x in d["lower"]]),
                ep=np.array(d["ep"], dtype=np.int64), ec=np.array(d["ec"], dtype=np.int64),
                bj=np.array(d["bj"], dtype=np.int64), bk=np.array(d["bk"], dtype=np.int64),
                elik=np.array([h2f(x) for x in d["elik"]]).reshape(-1, 2),
                blik=np.array([h2f(x) for x in d["blik"]]).reshape(-1, 2),
                border=np.array(d["border"], dtype=np.int64), eorder=np.array(d["eorder"], dtype=np.int64),
                free=np.array(d["free"], dtype=bool))


# ----------------------------------------------------------------------------- running the real kernels on static data

class RawEP:
    """The real numba kernels (`propagate_likelihood`, `propagate_prior`, `_rescale_factors`) driven exactly as
    `ExpectationPropagation.iterate` drives them, but on *static data given directly* (so that inputs no tree
    sequence produces cheaply — huge counts that trip the TINY renormalisation, fixed parents over free children —
    can be fed to the real code).  `iterate` below is a transcription of the five calls of the real `iterate`; the
    check compares it with the real `iterate` on every tree-sequence input (they must agree bit for bit)."""

    def __init__(self, st):
        import tsdate.variational as V
        self.V = V
        self.st = st
        n = st["fixed"].size
        cons = np.zeros((n, 2))
        cons[:, 1] = np.inf
        cons[st["fixed"], 0] = st["lower"][st["fixed"]]
        cons[st["fixed"], 1] = st["lower"][st["fixed"]]
        self.cons = cons
        self.ep_ = np.ascontiguousarray(st["ep"], dtype=np.int32)
        self.ec_ = np.ascontiguousarray(st["ec"], dtype=np.int32)
        self.bj_ = np.ascontiguousarray(st["bj"], dtype=np.int32)
        self.bk_ = np.ascontiguousarray(st["bk"], dtype=np.int32)
        self.factors = V.EPFactors(cons, self.ep_, self.ec_, self.bj_, self.bk_)
        self.node_posterior = np.zeros((n, 2))
        self.elog = np.zeros(self.ep_.size)
        self.blog = np.zeros(self.bj_.size)
        self.elik = np.ascontiguousarray(st["elik"], dtype=float).reshape(-1, 2)
        self.blik = np.ascontiguousarray(st["blik"], dtype=float).reshape(-1, 2)
        self.eorder = np.ascontiguousarray(st["eorder"], dtype=np.int32)
        self.border = np.ascontiguousarray(st["border"], dtype=np.int32)
        self.free = np.ascontiguousarray(st["free"], dtype=bool)

    def iterate(self, *, max_shape, min_step=0.1, regularise=True, em_maxitt=10, em_reltol=1e-8):
        V = self.V
        EP = V.ExpectationPropagation
        EP.propagate_likelihood(self.border, self.bj_, self.bk_, self.blik, self.cons, self.node_posterior,
                                self.factors, self.blog, max_shape, min_step, True)
        EP.propagate_likelihood(self.eorder, self.ep_, self.ec_, self.elik, self.cons, self.node_posterior,
                                self.factors, self.elog, max_shape, min_step, False)
        if regularise:
            EP.propagate_prior(self.free, self.node_posterior, self.factors, max_shape, em_maxitt, em_reltol)
        V._rescale_factors(self.factors)


def fraction_state_ok(st):
    return bool(st["exact"])


def to_frac(x):
    return Fraction(*float(x).as_integer_ratio())


# ----------------------------------------------------------------------------- running both sides

def dump_with_asm(obj):
    """State dump of an `ExpectationPropagation` or `RawEP` object plus the repository's own `_assemble_factors`."""
    import tsdate.variational as V
    d = dump_state(obj)
    d["asm"] = np.array(V._assemble_factors(obj.factors))
    return d


def run_impl(obj, *, max_shape, regularise, iters, min_step=0.1):
    """Run the real `iterate` `iters` times; returns (states, status)."""
    states = []
    try:
        for _ in range(iters):
            obj.iterate(max_shape=max_shape, min_step=min_step, regularise=regularise)
            states.append(dump_with_asm(obj))
    except BaseException as e:  # noqa: BLE001
        if isinstance(e, (KeyboardInterrupt, MemoryError)):
            raise
        return states, f"raised {type(e).__name__}"
    return states, "DONE"


def run_model(L, cid, st, *, max_shape, regularise, iters, min_step=0.1, mode="float", star=False, timeout=None):
    text = encode_case(cid, st, max_shape=max_shape, min_step=min_step, tiny=tiny_const(), regularise=regularise,
                       iters=iters, mode=mode, star=star)

    def proj(kind, unph, age, cavP, cavC, lik):
        return real_projection(kind, unph, age, cavP, cavC, lik)

    return L.run(text, mode=mode, projection=proj, timeout=timeout)


def compare(impl_states, impl_status, out):
    """Bit-for-bit comparison of all iteration states; returns list of human-readable differences."""
    diffs = []
    m_ok = out["status"] == "DONE"
    i_ok = impl_status == "DONE"
    if m_ok != i_ok:
        diffs.append(f"implementation {impl_status} but model {out['status']}")
    elif not m_ok:
        # both stopped: the model's `BAD <x>-assert` stands for the AssertionError of `_damp`/`_rescale`/`propagate_prior`
        same = out["status"] == impl_status or (out["status"].endswith("-assert") and impl_status == "raised AssertionError")
        if not same:
            diffs.append(f"implementation {impl_status} but model {out['status']}")
    for a, b in zip(impl_states, out["states"]):
        d = states_equal_bits(a, b)
        if d:
            diffs.append(f"iteration {b['it']}: " + ", ".join(f"{k}: {n} entries differ (max rel {r:.2e})" for k, n, r in d))
        da = [i for i in range(a["asm"].size)
              if f2h(a["asm"].reshape(-1)[i]) != f2h(b["asm"][i]) and not (a["asm"].reshape(-1)[i] == 0 == b["asm"][i])]
        if da:
            diffs.append(f"iteration {b['it']}: model `assemble` differs from `_assemble_factors` in {len(da)} entries")
    if i_ok and m_ok and len(impl_states) != len(out["states"]):
        diffs.append("number of iterations differs")
    return diffs


def sched_ok(st):
    """The decidable hypotheses `SchedOK` of the theorems, evaluated on a static input."""
    n = st["fixed"].size
    E, B = st["ep"].size, st["bj"].size
    ok = st["lower"].size == n and st["free"].size <= n and st["ec"].size == E and st["bk"].size == B
    ok = ok and all(0 <= x < n for x in list(st["ep"]) + list(st["ec"]) + list(st["bj"]) + list(st["bk"]))
    ok = ok and all(0 <= i < E for i in st["eorder"]) and all(0 <= i < B for i in st["border"])
    return bool(ok)


def free_excludes_fixed(st):
    return not bool(np.any(st["free"] & st["fixed"]))


def oracle_bookkeeping(st, states, tag, rtol=1e-9):
    """C21 stated on the implementation's own arrays after each iteration. Returns list of (kind, what)."""
    bad = []
    fx = st["fixed"]
    for it, s in enumerate(states):
        post, asm = s["post"], s["asm"]
        # magnitude of what is being summed (messages may cancel)
        mag = np.zeros_like(post)
        np.add.at(mag, st["ep"], np.abs(s["edge"][:, 0]))
        np.add.at(mag, st["ec"], np.abs(s["edge"][:, 1]))
        if st["bj"].size:
            np.add.at(mag, st["bj"], np.abs(s["block"][:, 0]))
            np.add.at(mag, st["bk"], np.abs(s["block"][:, 1]))
        mag += np.abs(s["node"][:, 0]) + np.abs(s["node"][:, 1])
        err = np.abs(asm - post)
        with np.errstate(invalid="ignore"):
            viol = ~(err <= rtol * mag + 0.0) & ~((err == 0))
        if np.any(viol) or np.any(~np.isfinite(post)):
            n = int(np.argmax(np.where(np.isfinite(err), err / np.maximum(mag, 1e-300), np.inf).max(axis=1)))
            bad.append((f"assemble-mismatch:{tag}",
                        f"iteration {it}: _assemble_factors(factors) != node_posterior at node {n}: "
                        f"{asm[n].tolist()} vs {post[n].tolist()}"))
        if np.any(s["scale"] != 1.0):
            bad.append((f"scale-not-one:{tag}", f"iteration {it}: factors.scale not reset to 1"))
        if np.any(post[fx] != 0.0):
            bad.append((f"fixed-node-written:{tag}", f"iteration {it}: a fixed (sample) node has a non-zero posterior entry"))
    return bad


def perturb_static(rng, st, huge=False):
    """Static inputs no tree sequence gives cheaply, fed to the real kernels through `RawEP`: huge mutation counts
    (hard capping, TINY renormalisation), extra fixed nodes (fixed parent over free child: branch `leaf`)."""
    st = {k: np.array(v, copy=True) for k, v in st.items()}
    what = []
    if huge:
        st["elik"][:, 0] = np.floor(10.0 ** rng.uniform(9, 13, size=st["elik"].shape[0]))
        return st, ["counts=1e9..1e13"]
    if rng.random() < 0.7:
        f = float(rng.choice([1e3, 1e6, 1e9]))
        st["elik"][:, 0] = np.floor(st["elik"][:, 0] * f + rng.integers(0, 3, size=st["elik"].shape[0]) * f)
        if st["blik"].size:
            st["blik"][:, 0] = np.floor(st["blik"][:, 0] * f)
        what.append(f"counts*{f:g}")
    if rng.random() < 0.5:
        free_nodes = np.where(~st["fixed"])[0]
        parents = set(int(x) for x in st["ep"])
        cand = [int(u) for u in free_nodes if u in parents and not st["free"][u]]
        if cand:
            u = int(rng.choice(cand))
            st["fixed"][u] = True
            st["lower"][u] = float(rng.uniform(0.5, 50.0))
            what.append("extra-fixed")
    if rng.random() < 0.3:
        st["elik"][:, 1] *= float(rng.choice([1e-6, 1e6]))
        what.append("span-scale")
    return st, what


# ----------------------------------------------------------------------------- scalar kernels (C20 / C05)

def run_ops(L, ops, batch=100):
    """ops: list of (op, [floats]); returns list of reply token lists (after the id).
    Sent in small batches: the driver answers each block as it reads it, so an unbounded write would fill both pipes."""
    out = []
    for b0 in range(0, len(ops), batch):
        chunk = ops[b0:b0 + batch]
        text = "".join(f"case k{b0 + i}\nop {op}\nargs " + " ".join(f2h(x) for x in args) + "\nend\n"
                       for i, (op, args) in enumerate(chunk))
        L.p.stdin.write(text)
        L.p.stdin.flush()
        for i in range(len(chunk)):
            line = L.p.stdout.readline()
            if not line:
                raise common.LeanError("EP driver died: " + L.p.stderr.read()[-1000:])
            w = line.split()
            if w[0] != f"k{b0 + i}":
                raise common.LeanError(f"driver out of step: {line[:100]}")
            out.append(w[1:])
    return out


def real_damp(x, y, s):
    import tsdate.variational as V
    try:
        return float(V._damp(np.array(x, dtype=float), np.array(y, dtype=float), float(s))), True
    except AssertionError:
        return None, False


def real_rescale(x, s):
    import tsdate.variational as V
    try:
        return float(V._rescale(np.array(x, dtype=float), float(s))), True
    except AssertionError:
        return None, False


def real_rootward0(cav, lik):
    from tsdate import approx
    logl, p = approx.rootward_projection(0.0, np.array(cav, dtype=float), np.array(lik, dtype=float))
    return np.array(p), bool(np.isnan(logl))


# ----------------------------------------------------------------------------- star inputs (C20)

def star_forest_ts(rng, n=None, parents=None, trees=None, L=1000.0, total_muts=None, skew=None):
    """Star-like tree sequence: in every tree each sample hangs directly under one of a few non-sample parents
    (every parent present in a tree has >= 2 children there; parents are roots).  Mutations sit above samples.
    Returns (ts, info)."""
    import tskit
    n = int(rng.integers(2, 9)) if n is None else n
    parents = int(rng.integers(1, max(2, n // 2 + 1))) if parents is None else parents
    trees = int(rng.choice([1, 1, 2, 3, 5])) if trees is None else trees
    t = tskit.TableCollection(sequence_length=L)
    for _ in range(n):
        t.nodes.add_row(flags=tskit.NODE_IS_SAMPLE, time=0)
    pid = [t.nodes.add_row(flags=0, time=1.0 + k) for k in range(parents)]
    breaks = sorted(set([0.0, L] + [float(np.floor(x)) for x in rng.uniform(1, L - 1, size=trees - 1)]))
    assign = []
    for a, b in zip(breaks[:-1], breaks[1:]):
        while True:
            lab = rng.integers(0, parents, size=n)
            cnt = np.bincount(lab, minlength=parents)
            if np.all((cnt == 0) | (cnt >= 2)):
                break
        assign.append(lab)
        for c in range(n):
            t.edges.add_row(a, b, pid[lab[c]], c)
    t.sort()
    t.edges.squash()
    t.sort()
    total = int(rng.choice([0, 3, 10, 30, 100, 400])) if total_muts is None else total_muts
    skew = float(rng.choice([0.0, 1.0, 3.0])) if skew is None else skew
    w = rng.random(n) ** (1 + skew)            # skewed shares per sample
    w = w / w.sum()
    counts = rng.multinomial(total, w) if total else np.zeros(n, dtype=int)
    # sites must have distinct sorted positions: draw all positions first
    pos = np.sort(rng.uniform(0, L, size=int(counts.sum())))
    pos = np.unique(pos)
    owners = np.repeat(np.arange(n), counts)[: pos.size]
    rng.shuffle(owners)
    for x, c in zip(pos, owners):
        s = t.sites.add_row(float(x), "A")
        t.mutations.add_row(s, int(c), "T", time=tskit.UNKNOWN_TIME)
    t.sort()
    t.build_index()
    t.compute_mutation_parents()
    ts = t.tree_sequence()
    return ts, dict(n=n, parents=parents, trees=ts.num_trees, muts=ts.num_mutations, edges=ts.num_edges)


def star_expected(ts, mutation_rate):
    """Closed form, computed from the tables alone: per non-sample node (sum of mutations on its child edges,
    mutation_rate * total span of its child edges)."""
    y = np.zeros(ts.num_nodes)
    span = np.zeros(ts.num_nodes)
    for e in ts.edges():
        span[e.parent] += e.right - e.left
    pos = ts.sites_position[ts.mutations_site]
    for m, x in zip(ts.mutations_node, pos):
        tree = ts.at(x)
        y[tree.parent(m)] += 1
    return y, mutation_rate * span


def is_star_static(st):
    fx = st["fixed"]
    return bool(st["bj"].size == 0 and np.all(fx[st["ec"]]) and not np.any(fx[st["ep"]])
                and np.all(st["lower"][st["ec"]] == 0) and np.all(st["elik"][:, 0] >= 0) and np.all(st["elik"][:, 1] > 0))
