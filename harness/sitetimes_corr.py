"""
C31: inputs, stage-B correspondence (Lean `SiteTimes` models at Float, bit-for-bit) and stage-C oracle for
`sites_time_from_ts`, `nodes_time_unconstrained`, `add_sampledata_times`.
"""

import json
import warnings

import numpy as np

from . import common, dating, gen
from .split_corr import ts_b64, ts_from_b64
from .common import Violation, f2h, h2f

SELS = ["child", "parent", "arithmetic", "geometric"]
NANH = "7ff8000000000000"


# ----------------------------------------------------------------------------- inputs

def crowded_ts(rng, historical=None):
    """Short genome, many mutations: several mutations per site, mutations above roots, gaps."""
    hist = (rng.random() < 0.4) if historical is None else historical
    ts, info = gen.gen_ts(rng, historical=1.0 if hist else 0.0, rootmuts=0.5, gaps=0.3, polytomy=0.15,
                          internal_samples=0.1, L=float(rng.choice([12, 40, 150])),
                          muts_per_edge=float(rng.choice([1, 3, 8])), n=int(rng.integers(2, 8)),
                          ploidy=int(rng.choice([1, 1, 2])))
    if rng.random() < 0.3 and ts.num_sites:
        # a few sites without any mutation
        tables = ts.dump_tables()
        used = set(float(x) for x in tables.sites.position)
        for _ in range(3):
            pos = float(np.floor(rng.uniform(0, ts.sequence_length)))
            if pos not in used:
                tables.sites.add_row(position=pos, ancestral_state="A")
                used.add(pos)
        tables.sort()
        tables.build_index()
        tables.compute_mutation_parents()
        ts = tables.tree_sequence()
        info["fired"] = info["fired"] + ["empty_sites"]
    return ts, info


def with_fake_mn(ts, rng, mode):
    """Write JSON node metadata by hand: all nodes have mn / one non-sample node lacks it / raw empty bytes."""
    import tskit
    tables = ts.dump_tables()
    tables.nodes.metadata_schema = tskit.MetadataSchema.permissive_json()
    t = ts.nodes_time
    is_sample = (ts.nodes_flags & tskit.NODE_IS_SAMPLE) != 0
    nonsample = np.where(~is_sample)[0]
    victim = int(rng.choice(nonsample)) if nonsample.size else -1
    rows = []
    for u in range(ts.num_nodes):
        mn = float(t[u] * rng.uniform(0.2, 3.0) + rng.uniform(0, 2)) if rng.random() < 0.9 else int(rng.integers(0, 50))
        md = {"mn": mn, "vr": float(rng.uniform(0, 5))}
        if mode == "missing-key" and u == victim:
            md = {"vr": 1.0}
        if is_sample[u] and rng.random() < 0.5:
            md = {}          # samples need no mn
        rows.append(json.dumps(md).encode())
    if mode == "empty-bytes" and victim >= 0:
        tables.nodes.metadata_schema = tskit.MetadataSchema(None)
        rows[victim] = b""
    tables.nodes.packset_metadata(rows)
    return tables.tree_sequence()


def mn_of_nodes(ts):
    """What `nodes_time_unconstrained` reads: per node the float under "mn", None where the documented
    (KeyError, JSONDecodeError) path is taken, "other" if anything else happens (outside the model)."""
    import tskit
    tb = ts.tables.nodes
    out = []
    for met in tskit.unpack_bytes(tb.metadata, tb.metadata_offset):
        try:
            v = json.loads(met.decode())["mn"]
            out.append(float(v) if isinstance(v, (int, float)) and not isinstance(v, bool) else "other")
        except (KeyError, json.decoder.JSONDecodeError):
            out.append(None)
        except Exception:  # noqa: BLE001
            out.append("other")
    return out


def make_case(ts, sel, min_time, unc):
    import tskit
    is_sample = (ts.nodes_flags & tskit.NODE_IS_SAMPLE) != 0
    return dict(kind="sites", ts=ts, sel=sel, min_time=float(min_time), unc=bool(unc), is_sample=is_sample,
                mn=mn_of_nodes(ts) if unc else [None] * ts.num_nodes)


def encode_sites(i, c):
    ts = c["ts"]
    ed = []
    for l, r, p, ch in zip(ts.edges_left, ts.edges_right, ts.edges_parent, ts.edges_child):
        ed += [f2h(l), f2h(r), str(int(p)), str(int(ch))]
    mu = []
    for s, u in zip(ts.mutations_site, ts.mutations_node):
        mu += [str(int(s)), str(int(u))]
    return "\n".join([
        f"case {i}", "kind sites", f"sel {c['sel']}", f"mintime {f2h(c['min_time'])}", f"unc {int(c['unc'])}",
        "sample " + " ".join("1" if b else "0" for b in c["is_sample"]),
        "time " + " ".join(f2h(x) for x in ts.nodes_time),
        "mn " + " ".join("none" if (m is None or m == "other") else f2h(m) for m in c["mn"]),
        "edges " + " ".join(ed),
        "sites " + " ".join(f2h(x) for x in ts.sites_position),
        "muts " + " ".join(mu), "end"]) + "\n"


def run_impl_sites(c):
    from tsdate.util import sites_time_from_ts
    try:
        with warnings.catch_warnings():
            warnings.simplefilter("ignore")
            out = sites_time_from_ts(c["ts"], unconstrained=c["unc"], node_selection=c["sel"], min_time=c["min_time"])
        return dict(ok=True, out=np.asarray(out, dtype=float))
    except Exception as e:  # noqa: BLE001
        return dict(ok=False, exc=type(e).__name__, msg=str(e)[:200])


# ----------------------------------------------------------------------------- sampledata

def gen_sampledata(rng):
    import tsinfer
    n = int(rng.integers(2, 9))
    S = int(rng.integers(1, 9))
    times = np.where(rng.random(n) < 0.5, 0.0, np.round(rng.uniform(0.5, 50, size=n), int(rng.integers(0, 4))))
    rows = []
    with warnings.catch_warnings():
        warnings.simplefilter("ignore")
        with tsinfer.SampleData(sequence_length=100) as sd:
            for t in times:
                sd.add_individual(ploidy=1, time=float(t))
            pos = np.sort(rng.choice(99, size=S, replace=False))
            for x in pos:
                g = rng.integers(-1, 3, size=n).astype(np.int8)
                if rng.random() < 0.2:
                    g[times != 0] = 0
                rows.append(g)
                sd.add_site(float(x), g, alleles=["A", "C", "G"])
    est = np.round(rng.uniform(0, 60, size=S), int(rng.integers(0, 5)))
    est[rng.random(S) < 0.2] = np.nan
    if rng.random() < 0.3:
        est = np.where(rng.random(S) < 0.5, times[rng.integers(0, n, size=S)], est)      # ties with the bound
    return dict(kind="sampledata", sd=sd, times=times, rows=rows, est=est)


def encode_sampledata(i, c):
    lines = [f"case {i}", "kind sampledata", "est " + " ".join(f2h(x) for x in c["est"]),
             "stimes " + " ".join(f2h(x) for x in c["times"])]
    for g in c["rows"]:
        lines.append("row " + " ".join(str(int(x)) for x in g))
    return "\n".join(lines + ["end"]) + "\n"


def run_impl_sampledata(c):
    from tsdate.util import add_sampledata_times
    try:
        with warnings.catch_warnings():
            warnings.simplefilter("ignore")
            out = add_sampledata_times(c["sd"], c["est"])
            return dict(ok=True, out=np.asarray(out.sites_time[:], dtype=float), same_genotypes=bool(
                np.array_equal(out.sites_genotypes[:], c["sd"].sites_genotypes[:])))
    except Exception as e:  # noqa: BLE001
        return dict(ok=False, exc=type(e).__name__, msg=str(e)[:200])


# ----------------------------------------------------------------------------- model

def run_model(cases):
    text = "".join(encode_sites(i, c) if c["kind"] == "sites" else encode_sampledata(i, c) for i, c in enumerate(cases))
    outs = {}
    for ln in common.lean_driver("SiteTimes", text):
        parts = ln.split()
        if not parts:
            continue
        if parts[1:] == ["bad-op"]:
            outs[int(parts[0])] = "bad-op"
        elif parts[1:] == ["error"]:
            outs[int(parts[0])] = "error"
        else:
            outs[int(parts[0])] = parts[1:]
    return outs


def replay_of(c):
    if c["kind"] == "sites":
        return dict(kind="sites", sel=c["sel"], min_time=f2h(c["min_time"]), unc=c["unc"], ts=ts_b64(c["ts"]))
    return dict(kind="sampledata", times=[f2h(x) for x in c["times"]], rows=[[int(x) for x in g] for g in c["rows"]],
                est=[f2h(x) for x in c["est"]])


def case_from_replay(d):
    if d["kind"] == "sites":
        return make_case(ts_from_b64(d["ts"]), d["sel"], h2f(d["min_time"]), d["unc"])
    import tsinfer
    times = np.array([h2f(x) for x in d["times"]])
    rows = [np.array(g, dtype=np.int8) for g in d["rows"]]
    with warnings.catch_warnings():
        warnings.simplefilter("ignore")
        with tsinfer.SampleData(sequence_length=100) as sd:
            for t in times:
                sd.add_individual(ploidy=1, time=float(t))
            for k, g in enumerate(rows):
                sd.add_site(float(k), g, alleles=["A", "C", "G"])
    return dict(kind="sampledata", sd=sd, times=times, rows=rows, est=np.array([h2f(x) for x in d["est"]]))


def compare(cases, impls):
    """Stage B. Returns (corr_failures, findings) — findings are (kind, what, replay): the documented error is a
    ValueError (repaired in /repo 91c42ba: the handler used to turn it into a TypeError); any other exception type
    where the model says ValueError is reported as a violation of kind `missing-mn-error-is-<Type>`."""
    model = run_model(cases)
    fails, findings = [], []
    for i, (c, r) in enumerate(zip(cases, impls)):
        m = model.get(i)
        if c["kind"] == "sites" and "other" in [x for x, s in zip(c["mn"], c["is_sample"]) if not s]:
            continue                                    # metadata outside the modelled (float | missing) domain
        if m is None or m == "bad-op":
            fails.append(Violation("sitetimes-model-rejects", f"Lean model answered bad-op on a {c['kind']} case", replay_of(c), stage="B"))
            continue
        if m == "error":
            if r["ok"]:
                fails.append(Violation("sitetimes-model-differs", "model says ValueError, implementation returned", replay_of(c), stage="B"))
            elif r["exc"] != "ValueError":
                findings.append((f"missing-mn-error-is-{r['exc']}",
                                 f"sites_time_from_ts(unconstrained=True) without `mn` metadata raised {r['exc']}: {r['msg'][:90]} "
                                 "instead of the documented ValueError", replay_of(c)))
            continue
        if not r["ok"]:
            fails.append(Violation("sitetimes-model-differs", f"implementation raised {r['exc']}: {r['msg'][:100]}, model returned",
                                   replay_of(c), stage="B"))
            continue
        got = [f2h(x) for x in r["out"]]
        if got != m:
            nd = sum(a != b for a, b in zip(got, m)) if len(got) == len(m) else -1
            fails.append(Violation("sitetimes-model-differs",
                                   f"{c['kind']}: implementation differs from the Lean model (Float, bit-for-bit) at {nd} site(s)"
                                   + (f" [sel={c['sel']} min_time={c['min_time']} unconstrained={c['unc']}]" if c["kind"] == "sites" else ""),
                                   dict(replay_of(c), impl=got, model=m), stage="B"))
    return fails, findings


# ----------------------------------------------------------------------------- oracle (the statement, from tskit's tree API)

def oracle_sites(c, r):
    import tskit
    ts = c["ts"]
    if not r["ok"]:
        return []
    if c["unc"]:
        t = ts.nodes_time.copy()
        for u in range(ts.num_nodes):
            if not c["is_sample"][u]:
                if not isinstance(c["mn"][u], float):
                    return [("unconstrained-ignores-missing-mn", f"returned although node {u} has no usable mn")]
                t[u] = c["mn"][u]
    else:
        t = ts.nodes_time
    want = np.full(ts.num_sites, np.nan)
    for tree in ts.trees():
        for site in tree.sites():
            ages = []
            for mut in site.mutations:
                p = tree.parent(mut.node)
                a, b = t[mut.node], (t[p] if p != tskit.NULL else None)
                if c["sel"] == "child" or b is None:
                    ages.append(a)
                elif c["sel"] == "parent":
                    ages.append(b)
                elif c["sel"] == "arithmetic":
                    ages.append((a + b) / 2)
                else:
                    ages.append(np.sqrt(a * b))
            if ages:
                want[site.id] = max(max(ages), c["min_time"])
    got = r["out"]
    bad = []
    if got.shape != want.shape:
        return [("site-times-wrong-length", f"{got.shape} values for {ts.num_sites} sites")]
    nan_mis = np.isnan(got) != np.isnan(want)
    if np.any(nan_mis):
        bad.append(("nan-iff-no-mutation-broken", f"{int(nan_mis.sum())} site(s): NaN does not coincide with 'no mutation'"))
    ok = ~np.isnan(got) & ~np.isnan(want)
    if np.any(got[ok] != want[ok]):
        k = int(np.sum(got[ok] != want[ok]))
        lo = bool(np.any(got[ok] < c["min_time"]))
        bad.append(("below-min-time" if lo else f"not-max-of-{c['sel']}-summary",
                    f"{k} site(s) differ from max over the site's mutations of the {c['sel']} summary floored at {c['min_time']}"
                    f" (unconstrained={c['unc']})"))
    return bad


def oracle_sampledata(c, r):
    if not r["ok"]:
        return [(f"add-sampledata-raised-{r['exc']}", r["msg"])]
    hist = c["times"] != 0
    bad = []
    want = np.array(c["est"], dtype=float)
    for s, g in enumerate(c["rows"]):
        carr = c["times"][hist & (g > 0)]
        b = carr.max() if carr.size else 0.0
        if not np.isnan(want[s]):
            want[s] = max(want[s], b)
    got = r["out"]
    if got.shape != want.shape or np.any(np.isnan(got) != np.isnan(want)) or np.any(got[~np.isnan(want)] != want[~np.isnan(want)]):
        bad.append(("not-max-of-estimate-and-oldest-carrier", "site time differs from max(estimate, oldest historical derived carrier)"))
    if not r.get("same_genotypes", True):
        bad.append(("sampledata-genotypes-changed", "the returned SampleData copy has different genotypes"))
    return bad


def quiet():
    dating.quiet()
    import logging
    logging.getLogger("tsinfer").setLevel(logging.ERROR)
