"""
Stage B for C01/C03/C27: bit-exact correspondence of the Lean `constrainAges` model (Float carrier)
with the numba `_constrain_ages`, plus the per-case facts each property's oracle needs.
"""

import numpy as np

from . import common, gen
from .common import Violation, f2h, h2f


def edges_flags(ts):
    import tskit
    fixed = (ts.nodes_flags & tskit.NODE_IS_SAMPLE).astype(bool)
    return fixed, ts.edges_parent.astype(np.int32), ts.edges_child.astype(np.int32)


def adversarial_times(rng, ts, fixed):
    """Unconstrained time vectors: the input times perturbed in ways that trigger every branch."""
    t = ts.nodes_time.astype(float).copy()
    mode = rng.choice(["jitter", "ties", "inverted", "random", "huge", "tiny", "asis"])
    n = t.size
    free = ~fixed
    if mode == "jitter":
        t[free] *= rng.uniform(0.3, 3.0, size=free.sum())
    elif mode == "ties":
        # parents equal to children
        for p, c in zip(ts.edges_parent, ts.edges_child):
            if free[p] and rng.random() < 0.4:
                t[p] = t[c]
    elif mode == "inverted":
        mx = t.max() if n else 1.0
        t[free] = mx - t[free] + rng.uniform(0, 1)
    elif mode == "random":
        t[free] = rng.uniform(0, max(1.0, t.max()), size=free.sum())
    elif mode == "huge":
        c = float(rng.choice([1e6, 2.0**28, 1e9, 1e12]))
        t = t * c / max(1.0, t.max()) * rng.uniform(0.5, 2)
        for p, ch in zip(ts.edges_parent, ts.edges_child):
            if free[p] and rng.random() < 0.5:
                t[p] = t[ch]
        t[fixed] = ts.nodes_time[fixed]
    elif mode == "tiny":
        t = t * 1e-6 / max(1.0, t.max())
        t[fixed] = ts.nodes_time[fixed] * 1e-6 / max(1.0, ts.nodes_time.max())
    return t, str(mode)


def fixed_ok(t, fixed, ep, ec):
    """The numba code asserts that no fixed-fixed edge is inverted."""
    both = fixed[ep] & fixed[ec]
    return not np.any(t[ec][both] > t[ep][both])


def make_cases(ctx, n_cases, stream=1):
    rng = ctx.rng(stream)
    cases = []
    while len(cases) < n_cases:
        ts, info = gen.gen_ts(rng, historical=0.4, gaps=0.2, polytomy=0.2, permute=0.2, muts_per_edge=0.5)
        if ts.num_edges == 0:
            continue
        fixed, ep, ec = edges_flags(ts)
        if rng.random() < 0.35:
            # internal samples: mark some non-sample nodes as fixed (their input times are kept valid)
            fixed = fixed.copy()
            internal = np.where(~fixed)[0]
            if internal.size:
                k = int(rng.integers(1, min(3, internal.size) + 1))
                fixed[rng.choice(internal, size=k, replace=False)] = True
        for _ in range(3):
            t, mode = adversarial_times(rng, ts, fixed)
            if not fixed_ok(t, fixed, ep, ec):
                continue
            eps = float(rng.choice([1e-8, 1e-6, 1e-3, 1.0, 0.1, 1e-12]))
            iters = int(rng.choice([0, 0, 1, 2, 5, 100]))
            cases.append(dict(fixed=fixed, ep=ep, ec=ec, t=t, eps=eps, iters=iters, mode=mode,
                              trees=ts.num_trees, historical=bool(info["historical"])))
    return add_flag_cases(rng, cases[:n_cases])


def encode(i, c):
    # wrapper-level cases carry the node-flags column; the model derives the mask itself (fixedOfFlags)
    mask = ("flags " + " ".join(str(int(f)) for f in c["flags"])) if c.get("flags") is not None else \
        ("fixed " + " ".join("1" if b else "0" for b in c["fixed"]))
    return "\n".join([
        f"case {i}", f"eps {f2h(c['eps'])}", f"iters {c['iters']}",
        mask,
        "times " + " ".join(f2h(x) for x in c["t"]),
        "edges " + " ".join(f"{p} {ch}" for p, ch in zip(c["ep"], c["ec"])),
        "end"]) + "\n"


def case_replay(c):
    return dict(kind="constrain", fixed=[int(b) for b in c["fixed"]],
                flags=None if c.get("flags") is None else [int(f) for f in c["flags"]], edges_parent=[int(x) for x in c["ep"]],
                edges_child=[int(x) for x in c["ec"]], times=[f2h(x) for x in c["t"]], eps=f2h(c["eps"]),
                iters=c["iters"], mode=c.get("mode"))


def case_from_replay(d):
    return dict(fixed=np.array(d["fixed"], dtype=bool),
                flags=None if d.get("flags") is None else np.array(d["flags"], dtype=np.uint32), ep=np.array(d["edges_parent"], dtype=np.int32),
                ec=np.array(d["edges_child"], dtype=np.int32), t=np.array([h2f(x) for x in d["times"]]),
                eps=h2f(d["eps"]), iters=int(d["iters"]), mode=d.get("mode"))


EXTRA_FLAG_BITS = [1 << 20, 1 << 30, 2, 1 << 7]   # tsinfer historical sample, tsdate split-by-preprocess, user bits


def add_flag_cases(rng, cases, frac=0.35):
    """Turn a fraction of the cases into wrapper-level cases: the node-flags column (sample bit = the case's
    mask, plus random other bits on sample and non-sample nodes) instead of a pre-computed mask."""
    for c in cases:
        if rng.random() < frac:
            flags = c["fixed"].astype(np.uint32)
            for b in EXTRA_FLAG_BITS:
                flags |= (rng.random(flags.size) < 0.3).astype(np.uint32) * np.uint32(b)
            c["flags"] = flags
    return cases


class _FlagsTs:
    """The slice of the TreeSequence interface that util.constrain_ages reads."""
    def __init__(self, c):
        self.nodes_flags = c["flags"]
        self.edges_parent = c["ep"]
        self.edges_child = c["ec"]
        self.num_nodes = int(c["t"].size)


def run_impl(c):
    if c.get("flags") is not None:
        # the Python wrapper: derives the fixed mask from ts.nodes_flags itself
        from tsdate.util import constrain_ages
        return constrain_ages(_FlagsTs(c), c["t"].copy(), c["eps"], c["iters"])
    from tsdate.util import _constrain_ages
    return _constrain_ages(c["t"].copy(), c["fixed"], c["ep"], c["ec"], c["eps"], c["iters"])


def run_model(cases):
    text = "".join(encode(i, c) for i, c in enumerate(cases))
    lines = common.lean_driver("Constrain", text)
    outs = {}
    for ln in lines:
        parts = ln.split()
        if not parts:
            continue
        outs[int(parts[0])] = None if parts[1:] == ["bad-op"] else np.array([h2f(x) for x in parts[1:]])
    return outs


def correspondence(ctx, cases):
    """Returns (impl_outputs, corr_failures)."""
    impl, raised = [], {}
    for i, c in enumerate(cases):
        try:
            impl.append(run_impl(c))
        except Exception as e:  # noqa: BLE001  the implementation refusing a case the model accepts is a difference
            impl.append(None)
            raised[i] = f"{type(e).__name__}: {str(e)[:120]}"
    model = run_model(cases)
    fails = []
    for i, (c, o) in enumerate(zip(cases, impl)):
        m = model.get(i)
        if o is None:
            if m is not None:
                fails.append(Violation("constrain-impl-raised",
                                       f"_constrain_ages raised {raised[i]} on a case the Lean model accepts "
                                       f"(iters={c['iters']}, eps={c['eps']}, mode={c.get('mode')})",
                                       dict(case_replay(c), impl=None, model=[f2h(x) for x in m]), stage="B"))
            continue
        same = m is not None and m.shape == o.shape and all(f2h(a) == f2h(b) for a, b in zip(m, o))
        if not same:
            nd = None if m is None else int(np.sum([f2h(a) != f2h(b) for a, b in zip(m, o)]))
            fails.append(Violation("constrain-model-differs",
                                   f"_constrain_ages differs from the Lean model on {nd} node(s) "
                                   f"(iters={c['iters']}, eps={c['eps']}, mode={c.get('mode')})",
                                   dict(case_replay(c), impl=[f2h(x) for x in o],
                                        model=None if m is None else [f2h(x) for x in m]), stage="B"))
    return impl, fails


def topo_ordered(ep, ec):
    """Decidable hypothesis of the theorems: no later edge has as parent an earlier edge's child."""
    seen_children = set()
    for p, c in zip(ep, ec):
        if int(p) in seen_children:
            return False
        seen_children.add(int(c))
    return True


def fadd_np(x, eps):
    """the value the forced pass assigns above a child at x"""
    return np.maximum(x + eps, np.nextafter(x, np.inf))


def bump_char(t_in, out, ep, ec, eps, node):
    """order-free characterisation of the forced pass at `node` (Props/C27 forced_is_bump)"""
    acc = t_in[node]
    for p, c in zip(ep, ec):
        if p == node:
            if acc <= out[c] + eps:
                acc = fadd_np(out[c], eps)
    return acc
