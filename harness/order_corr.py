"""
Shared code for C11 and C38:

* the three grouped edge iterators of `BeliefPropagation` vs the Lean sort-key model (exact)
* the linear-space inside/outside passes vs the Lean pass model (Driver/Order.lean) on the
  implementation's own prior rows and likelihood tables
* metamorphic transformations: renumbering of non-sample nodes, re-timing of non-sample nodes
* the local "which messages were ignored" recomputation used by the C38 oracle
"""

import itertools
import types

import numpy as np

from . import common, dating, gen
from .common import f2h, h2f

RTOL = 1e-9


# ----------------------------------------------------------------------------- iterators

def real_orders(ts):
    """Edge ids in the order of the three iterators of the real class, and the groupby structure."""
    from tsdate.discrete import BeliefPropagation as BP
    fake = types.SimpleNamespace(ts=ts)
    out = {}
    for name, fn in (("P", BP.edges_by_parent_asc), ("C", BP.edges_by_child_desc),
                     ("D", BP.edges_by_child_then_parent_desc)):
        out[name] = [int(e.id) for e in fn(fake, grouped=False)]
        out["G" + name] = [(int(k), [int(e.id) for e in es]) for k, es in fn(fake, grouped=True)]
    return out


def encode_keys(i, ts):
    return "\n".join([f"case {i}", "op keys", "times " + " ".join(f2h(x) for x in ts.nodes_time),
                      "child " + " ".join(str(int(x)) for x in ts.edges_child),
                      "parent " + " ".join(str(int(x)) for x in ts.edges_parent), "end"]) + "\n"


def parse_keys(line):
    parts = line.split()
    if parts[1] != "keys":
        return None
    out, cur = {}, None
    for tok in parts[2:]:
        if tok in ("P", "C", "D", "GC", "GD"):
            cur = tok
            out[cur] = []
        else:
            out[cur].append(int(tok))
    return out


def compare_keys(ts, real, model):
    """Returns list of mismatch descriptions. P, C exact; D exact up to blocks of fully tied keys."""
    bad = []
    if model is None:
        return ["driver rejected the edge table"]
    if real["P"] != model["P"]:
        bad.append("edges_by_parent_asc differs from the edge-table order")
    if real["C"] != model["C"]:
        bad.append("edges_by_child_desc differs from the stable lexsort model")
    t, c, p = ts.nodes_time, ts.edges_child, ts.edges_parent
    key = lambda e: (t[c[e]], int(c[e]), -t[p[e]])  # noqa: E731
    if sorted(real["D"]) != sorted(model["D"]) or [key(e) for e in real["D"]] != [key(e) for e in model["D"]]:
        bad.append("edges_by_child_then_parent_desc differs from the sort-key model beyond fully tied keys")
    if [len(g) for _, g in real["GC"]] != model["GC"]:
        bad.append("groupby structure of edges_by_child_desc differs")
    if [len(g) for _, g in real["GD"]] != model["GD"]:
        bad.append("groupby structure of edges_by_child_then_parent_desc differs")
    return bad


# ----------------------------------------------------------------------------- running the implementation

def run_io(ts, info, space, eps, tp, ignore, standardize, cache_inside=False):
    import tsdate
    dating.quiet()
    try:
        prior = tsdate.build_prior_grid(ts, population_size=info["Ne"], timepoints=tp.copy())
        out, fit = tsdate.inside_outside(ts, mutation_rate=info["mu"], priors=prior, probability_space=space,
                                         eps=eps, ignore_oldest_root=ignore, outside_standardize=standardize,
                                         cache_inside=cache_inside, return_fit=True)
        return dict(ok=True, fit=fit, out=out, exc=None, msg="")
    except BaseException as e:  # noqa: BLE001
        if isinstance(e, (KeyboardInterrupt, MemoryError)):
            raise
        return dict(ok=False, fit=None, out=None, exc=type(e).__name__, msg=str(e)[:200])


def roots_of(ts):
    """Nodes that are the root of a tree with at least one edge, and the oldest of them
    (None when the greatest time is shared by several roots)."""
    roots = set()
    for tree in ts.trees():
        for r in tree.roots:
            if tree.num_children(r) > 0:
                roots.add(int(r))
    roots = sorted(roots)
    if not roots:
        return roots, None
    tmax = max(ts.nodes_time[r] for r in roots)
    oldest = [r for r in roots if ts.nodes_time[r] == tmax]
    return roots, (oldest[0] if len(oldest) == 1 else None)


def extract_io(fit):
    """Data for the Lean pass model from a linear-space fit."""
    ts = fit.ts
    lik = fit.lik
    G = lik.grid_size
    fixed = np.zeros(ts.num_nodes, dtype=bool)
    fixed[list(fit.fixednodes)] = True
    prior = {u: np.array(fit.priors[u], dtype=float) for u in range(ts.num_nodes) if not fixed[u]}
    likl, likf, spanfrac = {}, {}, np.zeros(ts.num_edges)
    for e in ts.edges():
        spanfrac[e.id] = e.span / fit.spans[e.child]
        if fixed[e.child]:
            likf[e.id] = np.array(lik.get_mut_lik_fixed_node(e), dtype=float)
        else:
            likl[e.id] = np.array(lik.get_mut_lik_lower_tri(e), dtype=float)
    rootfrac = np.zeros(ts.num_nodes)
    for r, s in fit.root_spans.items():
        rootfrac[r] = s / fit.spans[r]
    ins = [(int(e.child), int(e.parent), int(e.id)) for e in fit.edges_by_parent_asc(grouped=False)]
    out = [(int(e.parent), int(e.child), int(e.id)) for e in fit.edges_by_child_desc(grouped=False)]
    roots, oldest = roots_of(ts)
    return dict(n=ts.num_nodes, G=G, fixed=fixed, prior=prior, likl=likl, likf=likf, spanfrac=spanfrac,
                rootfrac=rootfrac, ins=ins, out=out, times=ts.nodes_time.copy(), roots=roots, oldest=oldest)


def encode_io(i, d, ign, standardize):
    lines = [f"case {i}", "op io", f"n {d['n']}", f"G {d['G']}", f"std {1 if standardize else 0}", f"ign {ign}",
             "fixed " + " ".join("1" if b else "0" for b in d["fixed"]),
             "times " + " ".join(f2h(x) for x in d["times"]),
             "roots " + " ".join(str(r) for r in d["roots"]),
             "rootfrac " + " ".join(f2h(x) for x in d["rootfrac"]),
             "spanfrac " + " ".join(f2h(x) for x in d["spanfrac"])]
    for u, row in d["prior"].items():
        lines.append(f"prior {u} " + " ".join(f2h(x) for x in row))
    for e, tab in d["likl"].items():
        lines.append(f"likl {e} " + " ".join(f2h(x) for x in tab))
    for e, tab in d["likf"].items():
        lines.append(f"likf {e} " + " ".join(f2h(x) for x in tab))
    lines.append("ins " + " ".join(f"{a} {b} {c}" for a, b, c in d["ins"]))
    lines.append("out " + " ".join(f"{a} {b} {c}" for a, b, c in d["out"]))
    lines.append("end")
    return "\n".join(lines) + "\n"


def parse_io(line, G):
    parts = line.split()
    if len(parts) < 2 or parts[1] != "io":
        return None
    res = dict(hyp_ins=parts[3] == "1", hyp_out=parts[4] == "1", inside={}, den={}, outside={})
    j = 5
    while j < len(parts):
        if parts[j] == "I":
            u = int(parts[j + 1])
            res["den"][u] = h2f(parts[j + 2])
            res["inside"][u] = np.array([h2f(x) for x in parts[j + 3: j + 3 + G]])
            j += 3 + G
        elif parts[j] == "O":
            u = int(parts[j + 1])
            res["outside"][u] = np.array([h2f(x) for x in parts[j + 2: j + 2 + G]])
            j += 2 + G
        else:
            return None
    return res


def run_driver(text):
    out = {}
    for ln in common.lean_driver("Order", text):
        parts = ln.split()
        if parts:
            out[int(parts[0])] = ln
    return out


def close(a, b, rtol=RTOL):
    a, b = np.asarray(a, dtype=float), np.asarray(b, dtype=float)
    if a.shape != b.shape:
        return False
    with np.errstate(all="ignore"):
        both_inf = np.isinf(a) & np.isinf(b) & (np.sign(a) == np.sign(b))
        ok = both_inf | (np.abs(a - b) <= rtol * np.maximum(np.abs(a), np.abs(b)) + 1e-300)
    return bool(np.all(ok))


def reldiff(a, b):
    a, b = np.asarray(a, dtype=float), np.asarray(b, dtype=float)
    with np.errstate(all="ignore"):
        d = np.abs(a - b) / np.maximum(np.maximum(np.abs(a), np.abs(b)), 1e-300)
        d = np.where(np.isinf(a) & np.isinf(b) & (np.sign(a) == np.sign(b)), 0.0, d)
        d = np.where(np.isnan(d), np.inf, d)
    return float(np.max(d)) if d.size else 0.0


def compare_io(fit, model):
    """model = parse_io(...). Returns list of mismatch strings."""
    bad = []
    ts = fit.ts
    for u in range(ts.num_nodes):
        if u in fit.fixednodes:
            continue
        if u not in model["inside"]:
            bad.append(f"node {u} missing in the model output")
            continue
        if not close(fit.inside[u], model["inside"][u]):
            bad.append(f"inside[{u}] differs (rel {reldiff(fit.inside[u], model['inside'][u]):.2e})")
        if not np.isnan(fit.denominator[u]) and not close([fit.denominator[u]], [model["den"][u]]):
            bad.append(f"denominator[{u}] differs")
        if not close(fit.outside[u], model["outside"][u]):
            bad.append(f"outside[{u}] differs (rel {reldiff(fit.outside[u], model['outside'][u]):.2e})")
    return bad


# ----------------------------------------------------------------------------- local recomputation (C38 oracle)

def recompute_outside(fit, ignored, standardize):
    """For every non-fixed child, the outside row that the documented loop produces from the
    implementation's own inside values and its parents' outside rows when the messages from the
    parents in `ignored` (and only those) are skipped.  Uses the primitives of the fit object, so it
    works in both probability spaces."""
    lik = fit.lik
    res = {}
    with np.errstate(all="ignore"):
        for child, edges in fit.edges_by_child_desc():
            if child in fit.fixednodes:
                continue
            val = np.full(lik.grid_size, lik.identity_constant)
            for edge in edges:
                if edge.parent in ignored:
                    continue
                spanfrac = edge.span / fit.spans[child]
                daughter_val = lik.scale_geometric(spanfrac, lik.make_lower_tri(fit.inside[edge.child]))
                cur_g_i = lik.ratio(lik.get_inside(daughter_val, edge), fit.denominator[child])
                inside_div_gi = lik.ratio(fit.inside[edge.parent], cur_g_i, div_0_null=True)
                parent_val = lik.scale_geometric(
                    spanfrac, lik.make_upper_tri(lik.combine(fit.outside[edge.parent], inside_div_gi)))
                if standardize:
                    parent_val = lik.ratio(parent_val, np.max(parent_val))
                val = lik.combine(val, lik.get_outside(parent_val, edge))
            res[int(child)] = lik.ratio(val, np.max(val)) if standardize else lik.ratio(val, fit.denominator[child])
    return res


def outside_matches(fit, rec, rtol=1e-7):
    worst = 0.0
    for u, row in rec.items():
        worst = max(worst, reldiff(np.asarray(fit.outside[u], dtype=float), row))
    return worst <= rtol, worst


def children_of(ts, p):
    return sorted({int(c) for c in ts.edges_child[ts.edges_parent == p]})


# ----------------------------------------------------------------------------- metamorphic transformations

def renumber(ts, rng, keep_last=False):
    """Random renumbering of the non-sample nodes (samples keep their ids). Returns (ts2, old->new map).
    keep_last: the node with the highest id keeps its id."""
    n = ts.num_nodes
    samples = np.array(sorted(ts.samples()))
    non = np.setdiff1d(np.arange(n), samples)
    movable = non[non != n - 1] if keep_last else non
    order = np.arange(n)            # new id i holds old node order[i]
    order[movable] = rng.permutation(movable)
    tables = ts.dump_tables()
    tables.subset(order.astype(np.int32), record_provenance=False)
    tables.sort()
    tables.build_index()
    tables.compute_mutation_parents()
    old2new = np.argsort(order)
    return tables.tree_sequence(), old2new


def retime(ts, rng, mode):
    """Change the times of non-sample nodes keeping the tree sequence valid.
    mode 'monotone': order preserving; 'shuffle': any valid assignment (order of unrelated nodes changes)."""
    import tskit
    t = ts.nodes_time.copy()
    is_sample = (ts.nodes_flags & tskit.NODE_IS_SAMPLE).astype(bool)
    if mode == "monotone":
        a = float(rng.uniform(0.2, 5.0))
        pw = float(rng.choice([0.5, 1.0, 2.0]))
        new = np.where(is_sample, t, a * np.power(t, pw) + (t > 0) * float(rng.uniform(0, 3)))
    else:
        new = t.copy()
        # children before parents: process nodes in order of the old times
        kids = {}
        for p, c in zip(ts.edges_parent, ts.edges_child):
            kids.setdefault(int(p), set()).add(int(c))
        for u in np.argsort(t, kind="stable"):
            u = int(u)
            if is_sample[u] or u not in kids:
                continue
            new[u] = max(new[c] for c in kids[u]) + float(rng.uniform(0.01, 10.0))
    tables = ts.dump_tables()
    tables.nodes.time = new
    tables.mutations.time = np.full(ts.num_mutations, tskit.UNKNOWN_TIME)
    tables.sort()
    tables.build_index()
    tables.compute_mutation_parents()
    return tables.tree_sequence()


def draw_input(rng, max_trees=12):
    n = int(rng.integers(2, 8))
    trees = int(rng.choice([t for t in [1, 2, 3, 5, 8, 12] if t <= max_trees]))
    ts, info = gen.gen_ts(rng, n=n, trees=trees, polytomy=0.2)
    return ts, info


def draw_timepoints(rng, Ne):
    k = int(rng.integers(3, 9))
    if rng.random() < 0.5:
        t = Ne * np.geomspace(0.02, 8.0, k - 1)
    else:
        t = np.sort(Ne * rng.uniform(0.01, 8.0, size=k - 1))
    return np.unique(np.concatenate([[0.0], t]))


def replay_dict(ts, info, **kw):
    d = dict(ts=gen.ts_to_jsonable(ts), Ne=info["Ne"], mu=info["mu"])
    for k, v in kw.items():
        if isinstance(v, np.ndarray):
            d[k] = [f2h(x) for x in v] if v.dtype.kind == "f" else [int(x) for x in v]
        elif isinstance(v, float):
            d[k] = f2h(v)
        else:
            d[k] = v
    return d
