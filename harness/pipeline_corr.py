"""
Shared code of the pipeline cluster (C02, C04, C08).

* rich input generator: gen.gen_ts + individuals / populations / migrations / provenance /
  metadata-and-schema variants on every table / top-level metadata / reference sequence
* capture of what the real `get_modified_ts` was given and did (result object, constrain output,
  tables before/after tskit's `sort`) without touching the source
* abstraction of a real TableCollection into the line protocol of Driver/Pipeline.lean and the
  canonical form in which model output and real output are compared (tskit's `sort` contract:
  edges / migrations as multisets, mutations as a multiset with the site column fixed)
* exact replay format (the tree sequence file, base64)
"""

import base64
import contextlib
import json
import os

import numpy as np

from . import common, dating, gen
from .common import Violation, f2h

MN, VR = "mn".encode().hex(), "vr".encode().hex()


# ----------------------------------------------------------------------------- replay format

def _tmp():
    d = common.CACHE / "tmp"
    d.mkdir(parents=True, exist_ok=True)
    return d / f"ts-{os.getpid()}.trees"


def ts_to_b64(ts):
    p = _tmp()
    try:
        ts.dump(str(p))
        return base64.b64encode(p.read_bytes()).decode()
    finally:
        p.unlink(missing_ok=True)


def ts_from_b64(s):
    import tskit
    p = _tmp()
    try:
        p.write_bytes(base64.b64decode(s))
        return tskit.load(str(p))
    finally:
        p.unlink(missing_ok=True)


# ----------------------------------------------------------------------------- generators

def _schemas():
    import tskit
    import tsdate.schemas as sch
    strict = tskit.MetadataSchema({"codec": "json", "type": "object",
                                   "properties": {"name": {"type": "string"}, "k": {"type": "integer"}},
                                   "additionalProperties": False})
    strict_mnvr = tskit.MetadataSchema({"codec": "json", "type": "object",
                                        "properties": {"name": {"type": "string"}, "k": {"type": "integer"},
                                                       "mn": {"type": "number"}, "vr": {"type": "number"}},
                                        "additionalProperties": False})
    struct = tskit.MetadataSchema({"codec": "struct", "type": "object",
                                   "properties": {"k": {"type": "integer", "binaryFormat": "i"}},
                                   "required": ["k"], "additionalProperties": False})
    return dict(none=None, permissive=tskit.MetadataSchema.permissive_json(), strict=strict,
                strict_mnvr=strict_mnvr, struct=struct, node_default=sch.default_node_schema,
                mut_default=sch.default_mutation_schema)


MD_VARIANTS = ["empty", "none_raw", "permissive", "permissive_partial", "strict", "strict_mnvr", "struct",
               "default_dated", "default_dated_extra", "permissive_with_mnvr"]


def set_md_variant(table, variant, rng, default_key):
    """Give `table` (nodes or mutations) a schema + metadata according to the variant."""
    import tskit
    S = _schemas()
    n = table.num_rows
    if variant == "empty":
        return
    if variant == "none_raw":            # raw bytes, no schema
        table.packset_metadata([bytes([65 + (i % 26)]) * int(rng.integers(1, 4)) for i in range(n)])
        return
    if variant in ("permissive", "permissive_partial", "permissive_with_mnvr"):
        sch = S["permissive"]
        table.metadata_schema = sch
        rows = []
        for i in range(n):
            if variant == "permissive_partial" and rng.random() < 0.5:
                rows.append(b"")
                continue
            d = {"name": f"r{i}", "k": int(rng.integers(0, 9))}
            if variant == "permissive_with_mnvr":
                d.update(mn=float(rng.uniform(0, 10)), vr=float(rng.uniform(0, 10)), extra=[1, {"a": None}])
            rows.append(sch.validate_and_encode_row(d))
        table.packset_metadata(rows)
        return
    if variant in ("strict", "strict_mnvr"):
        sch = S[variant]
        table.metadata_schema = sch
        table.packset_metadata([sch.validate_and_encode_row({"name": f"r{i}", "k": i % 5}) for i in range(n)])
        return
    if variant == "struct":
        sch = S["struct"]
        table.metadata_schema = sch
        table.packset_metadata([sch.validate_and_encode_row({"k": i}) for i in range(n)])
        return
    if variant == "default_dated":       # looks like the output of an earlier tsdate run
        sch = S[default_key]
        table.metadata_schema = sch
        table.packset_metadata([sch.validate_and_encode_row({"mn": float(i), "vr": 1.5}) for i in range(n)])
        return
    if variant == "default_dated_extra":   # dated earlier, then the user added keys of their own (on some rows)
        sch = S[default_key]
        table.metadata_schema = sch
        few = rng.random() < 0.5
        rows = []
        for i in range(n):
            d = {"mn": float(i), "vr": 1.5}
            if not few or rng.random() < 0.3 or i == 0:
                d.update(name=f"user{i}", rsid=[int(rng.integers(0, 99))])
            rows.append(sch.validate_and_encode_row(d))
        table.packset_metadata(rows)
        return
    raise ValueError(variant)


def add_user_keys(ts, rng):
    """After a dating: add keys of the user's own to node / mutation rows that live under tsdate's default
    schemas (to all rows or to a few only). Returns (new ts, which tables were touched)."""
    S = _schemas()
    t = ts.dump_tables()
    touched = []
    for table, key, name in ((t.nodes, "node_default", "nodes"), (t.mutations, "mut_default", "mutations")):
        if table.metadata_schema != S[key] or table.num_rows == 0:
            continue
        sch = table.metadata_schema
        few = rng.random() < 0.5
        rows = []
        raw = [bytes(table.metadata[table.metadata_offset[i]:table.metadata_offset[i + 1]]) for i in range(table.num_rows)]
        for i, b in enumerate(raw):
            d = sch.decode_row(b) if len(b) else {}
            if not few or rng.random() < 0.3 or i == 0:
                d.update(name=f"{name}{i}", rsid=[int(rng.integers(0, 99))], note={"by": "user"})
            rows.append(sch.validate_and_encode_row(d))
        table.packset_metadata(rows)
        touched.append(name + ("(few rows)" if few else "(all rows)"))
    return t.tree_sequence(), touched


def decorate(ts, rng, info, *, want_individuals=True, allow_migrations=True):
    """Attach everything dating must leave alone. Returns a new tree sequence; records what fired."""
    import tskit
    t = ts.dump_tables()
    fired = info.setdefault("decor", [])
    perm = tskit.MetadataSchema.permissive_json()
    # populations: a few extra rows, random assignment of nodes
    if rng.random() < 0.7:
        psch = t.populations.metadata_schema
        for j in range(int(rng.integers(1, 4))):
            try:
                t.populations.add_row(metadata={"name": f"extra{j}", "description": None})
            except Exception:
                t.populations.add_row()
        pop = t.nodes.population
        pop = rng.integers(-1 if rng.random() < 0.3 else 0, t.populations.num_rows, size=pop.size).astype(pop.dtype)
        t.nodes.population = pop
        fired.append("populations")
    # individuals
    if want_individuals and t.individuals.num_rows == 0 and rng.random() < 0.6:
        t.individuals.metadata_schema = perm
        ind = np.full(t.nodes.num_rows, -1, dtype=np.int32)
        samples = [u for u in range(t.nodes.num_rows) if t.nodes.flags[u] & tskit.NODE_IS_SAMPLE]
        rng.shuffle(samples)
        i = 0
        while i < len(samples):
            k = 2 if (rng.random() < 0.5 and i + 1 < len(samples)) else 1
            row = t.individuals.add_row(flags=int(rng.integers(0, 4)), location=list(rng.uniform(0, 1, size=int(rng.integers(0, 3)))),
                                        parents=[-1] * int(rng.integers(0, 3)), metadata={"iid": i})
            for u in samples[i:i + k]:
                ind[u] = row
            i += k
        t.nodes.individual = ind
        fired.append("individuals_added")
    elif t.individuals.num_rows > 0 and rng.random() < 0.6:
        # msprime individuals: give them metadata / location
        sch = perm
        t.individuals.metadata_schema = sch
        rows = [sch.validate_and_encode_row({"iid": i, "note": "x" * int(rng.integers(0, 3))}) for i in range(t.individuals.num_rows)]
        t.individuals.packset_metadata(rows)
        t.individuals.packset_location([rng.uniform(0, 1, size=int(rng.integers(0, 3))) for _ in range(t.individuals.num_rows)])
        fired.append("individuals_meta")
    # individuals that no node refers to
    if t.individuals.num_rows > 0 and rng.random() < 0.3:
        for j in range(int(rng.integers(1, 3))):
            try:
                t.individuals.add_row(flags=int(rng.integers(0, 4)), metadata={"orphan": j})
            except Exception:
                t.individuals.add_row(flags=int(rng.integers(0, 4)))
        fired.append("individuals_unreferenced")
    # migrations (synthetic rows; includes equal-time rows out of tskit's canonical order)
    if allow_migrations and rng.random() < 0.35 and t.populations.num_rows >= 2:
        L = t.sequence_length
        k = int(rng.integers(1, 5))
        times = sorted(float(x) for x in rng.choice([1.0, 2.0, 2.0, 5.0], size=k))
        for tm in times:
            a = float(np.floor(rng.uniform(0, L - 1)))
            t.migrations.add_row(left=a, right=min(L, a + 1 + float(np.floor(rng.uniform(0, L / 2)))),
                                 node=int(rng.integers(0, t.nodes.num_rows)),
                                 source=int(rng.integers(0, t.populations.num_rows)),
                                 dest=int(rng.integers(0, t.populations.num_rows)), time=tm)
        fired.append("migrations")
    # provenance
    if rng.random() < 0.5:
        for j in range(int(rng.integers(1, 3))):
            t.provenances.add_row(record=json.dumps({"software": {"name": f"step{j}"}, "parameters": {"x": j}}),
                                  timestamp=f"2020-01-0{j + 1}T00:00:00")
        fired.append("provenance")
    # metadata on the tables dating never touches
    if rng.random() < 0.5:
        # (tskit's simplify, used by the discrete methods' default prior, refuses edge metadata)
        for tab in ((t.edges, t.sites, t.migrations) if allow_migrations else (t.sites,)):
            tab.metadata_schema = perm
            tab.packset_metadata([perm.validate_and_encode_row({"e": i}) for i in range(tab.num_rows)])
        fired.append("other_metadata")
    # top level
    if rng.random() < 0.5:
        t.metadata_schema = perm
        t.metadata = {"study": "x", "n": int(rng.integers(0, 99))}
        fired.append("top_metadata")
    if rng.random() < 0.3:
        t.reference_sequence.data = "ACGT" * int(rng.integers(1, 5))
        fired.append("refseq")
    if rng.random() < 0.5:
        t.time_units = str(rng.choice(["uncalibrated", "years", "generations", "ticks"]))
        fired.append("time_units:" + t.time_units)
    # node / mutation metadata variants
    vn = str(rng.choice(MD_VARIANTS))
    vm = str(rng.choice(MD_VARIANTS))
    set_md_variant(t.nodes, vn, rng, "node_default")
    set_md_variant(t.mutations, vm, rng, "mut_default")
    info["md_nodes"], info["md_muts"] = vn, vm
    # allele states: multi-character and empty states
    if rng.random() < 0.3 and t.mutations.num_rows:
        ds = [m.derived_state for m in t.mutations]
        for i in range(len(ds)):
            if rng.random() < 0.3:
                ds[i] = str(rng.choice(["", "AC", "del", "T"]))
        t.mutations.packset_derived_state(ds)
        fired.append("odd_alleles")
    return t.tree_sequence()


def tight_internal_sample(ts, rng):
    """Turn one internal non-root node into a sample whose time is only just above its oldest child:
    the children are dated freely, so the constraint step usually has to move this sample (the rare input
    class on which 'sample times are kept' does not hold literally)."""
    import tskit
    t = ts.dump_tables()
    flags, time = t.nodes.flags, t.nodes.time
    has_parent = set(t.edges.child.tolist())
    cand = [u for u in set(t.edges.parent.tolist()) if u in has_parent and not (flags[u] & tskit.NODE_IS_SAMPLE)]
    if not cand:
        return ts, False
    u = int(rng.choice(sorted(cand)))
    kids = t.edges.child[t.edges.parent == u]
    if np.all(flags[kids] & tskit.NODE_IS_SAMPLE):
        return ts, False
    new_time = float(np.max(time[kids])) * (1 + 1e-9) + 1e-9
    if not new_time < time[u]:
        return ts, False
    time[u] = new_time
    flags[u] |= tskit.NODE_IS_SAMPLE
    t.nodes.time = time
    t.nodes.flags = flags
    mt = t.mutations.time
    t.mutations.time = np.full_like(mt, tskit.UNKNOWN_TIME)
    try:
        t.sort()
        return t.tree_sequence(), True
    except Exception:
        return ts, False


def rich_ts(rng, *, discrete_ok=True, unphased=False, **kw):
    """A generated input carrying rich non-time information.
    discrete_ok: keep all samples at time 0 and no migrations (the discrete methods need that)."""
    ploidy = 2 if (unphased or rng.random() < 0.4) else 1
    base = dict(historical=0.0 if (discrete_ok or unphased) else 0.3, polytomy=0.15, rootmuts=0.2,
                gaps=0.15, permute=0.0, ploidy=ploidy, n=int(rng.integers(2, 6)),
                internal_samples=0.0 if (discrete_ok or unphased) else 0.5)
    base.update(kw)
    ts, info = gen.gen_ts(rng, **base)
    if not (discrete_ok or unphased) and rng.random() < 0.3:
        ts, ok = tight_internal_sample(ts, rng)
        if ok:
            info["fired"].append("tight_internal_sample")
    ts = decorate(ts, rng, info, want_individuals=not unphased, allow_migrations=not discrete_ok)
    info["ploidy"] = ploidy
    return ts, info


# ----------------------------------------------------------------------------- capture

@contextlib.contextmanager
def capture_pipeline():
    """Record, for every get_modified_ts call: the Results object, what constrain_ages returned, and
    the tables before / after each tskit sort()."""
    import tskit
    import tsdate.core as core
    import tsdate.util as util
    calls = []
    orig_gmts = core.EstimationMethod.get_modified_ts
    orig_sort = tskit.TableCollection.sort
    orig_con = util.constrain_ages
    orig_cmt = tskit.TableCollection.compute_mutation_times

    def gmts(self, result):
        rec = dict(result=result, method=self, sorts=[], times_calls=[], newtimes=None, out=None)
        calls.append(rec)

        def cmt(tc, *a, **k):
            before = tc.copy()
            r = orig_cmt(tc, *a, **k)
            rec["times_calls"].append((before, tc.copy()))
            return r

        def sort(tc, *a, **k):
            before = tc.copy()
            r = orig_sort(tc, *a, **k)
            rec["sorts"].append((before, tc.copy()))
            return r

        def con(ts, nodes_time, *a, **k):
            out = orig_con(ts, nodes_time, *a, **k)
            rec["newtimes"] = np.array(out, copy=True)
            return out

        tskit.TableCollection.sort = sort
        tskit.TableCollection.compute_mutation_times = cmt
        util.constrain_ages = con
        try:
            out = orig_gmts(self, result)
            rec["out"] = out
            return out
        finally:
            tskit.TableCollection.sort = orig_sort
            tskit.TableCollection.compute_mutation_times = orig_cmt
            util.constrain_ages = orig_con

    core.EstimationMethod.get_modified_ts = gmts
    try:
        yield calls
    finally:
        core.EstimationMethod.get_modified_ts = orig_gmts


# ----------------------------------------------------------------------------- abstraction

def tok(b):
    if isinstance(b, str):
        b = b.encode()
    return bytes(b).hex() or "-"


def schema_class(schema):
    """Class token of a node/mutation metadata schema (see Driver/Pipeline.lean)."""
    import tskit
    S = _schemas()
    s = schema.schema
    if s is None:
        return "-"
    if schema == S["permissive"]:
        return "P"
    if schema == S["node_default"] or schema == S["mut_default"]:
        return "D"
    if s.get("codec") == "json" and s.get("additionalProperties") is False and not s.get("required"):
        return "S" + ",".join(sorted(k.encode().hex() for k in s.get("properties", {})))
    return "B"


def opaque_schema(schema):
    s = schema.schema
    if s is None:
        return "-"
    return common.canon_key(json.dumps(s, sort_keys=True, default=str))


def value_token(key, v):
    if key in ("mn", "vr") and isinstance(v, (float, np.floating)):
        return "f" + f2h(float(v))
    return json.dumps(v, sort_keys=True, separators=(",", ":"), default=str).encode().hex()


def md_token(schema, raw):
    """decoded metadata of a node/mutation row -> protocol token"""
    raw = bytes(raw)
    if len(raw) == 0:
        return "-"
    if schema.schema is None:
        return "r" + raw.hex()
    d = schema.decode_row(raw)
    if not isinstance(d, dict):
        return "r" + raw.hex()
    pairs = sorted((k.encode().hex(), value_token(k, v)) for k, v in d.items())
    return ",".join(f"{k}:{v}" for k, v in pairs) or "-"


def _ragged(col, off):
    return [bytes(col[off[i]:off[i + 1]]) for i in range(len(off) - 1)]


def abstract_tables(t):
    """Real TableCollection -> list of protocol lines (top, schemas, rows)."""
    rs = t.reference_sequence
    ref = "-"
    if t.has_reference_sequence():
        ref = common.canon_key([rs.data, rs.url, rs.metadata_bytes.hex(), str(rs.metadata_schema)])
    lines = [f"top {f2h(t.sequence_length)} {tok(t.time_units)} {tok(t.metadata_bytes)} {opaque_schema(t.metadata_schema)} {ref}",
             "schemas " + " ".join([schema_class(t.nodes.metadata_schema), opaque_schema(t.edges.metadata_schema),
                                    opaque_schema(t.sites.metadata_schema), schema_class(t.mutations.metadata_schema),
                                    opaque_schema(t.individuals.metadata_schema), opaque_schema(t.populations.metadata_schema),
                                    opaque_schema(t.migrations.metadata_schema)])]
    N = t.nodes
    nmd = _ragged(N.metadata, N.metadata_offset)
    for i in range(N.num_rows):
        lines.append(f"node {int(N.flags[i])} {f2h(N.time[i])} {int(N.population[i])} {int(N.individual[i])} {md_token(N.metadata_schema, nmd[i])}")
    E = t.edges
    emd = _ragged(E.metadata, E.metadata_offset)
    for i in range(E.num_rows):
        lines.append(f"edge {f2h(E.left[i])} {f2h(E.right[i])} {int(E.parent[i])} {int(E.child[i])} {tok(emd[i])}")
    S = t.sites
    smd = _ragged(S.metadata, S.metadata_offset)
    sanc = _ragged(S.ancestral_state, S.ancestral_state_offset)
    for i in range(S.num_rows):
        lines.append(f"site {f2h(S.position[i])} {tok(sanc[i])} {tok(smd[i])}")
    M = t.mutations
    mmd = _ragged(M.metadata, M.metadata_offset)
    mds = _ragged(M.derived_state, M.derived_state_offset)
    for i in range(M.num_rows):
        lines.append(f"mut {int(M.site[i])} {int(M.node[i])} {f2h(M.time[i])} {tok(mds[i])} {int(M.parent[i])} {md_token(M.metadata_schema, mmd[i])}")
    I = t.individuals
    imd = _ragged(I.metadata, I.metadata_offset)
    for i in range(I.num_rows):
        loc = I.location[I.location_offset[i]:I.location_offset[i + 1]]
        par = I.parents[I.parents_offset[i]:I.parents_offset[i + 1]]
        lines.append(f"ind {int(I.flags[i])} {','.join(f2h(x) for x in loc) or '-'} {','.join(str(int(x)) for x in par) or '-'} {tok(imd[i])}")
    P = t.populations
    pmd = _ragged(P.metadata, P.metadata_offset)
    for i in range(P.num_rows):
        lines.append(f"pop {tok(pmd[i])}")
    G = t.migrations
    gmd = _ragged(G.metadata, G.metadata_offset)
    for i in range(G.num_rows):
        lines.append(f"mig {f2h(G.left[i])} {f2h(G.right[i])} {int(G.node[i])} {int(G.source[i])} {int(G.dest[i])} {f2h(G.time[i])} {tok(gmd[i])}")
    for p in t.provenances:
        lines.append(f"prov {tok(p.timestamp)} {tok(p.record)}")
    return lines


def toks(arr):
    return " ".join(f2h(x) for x in arr)


def encode_case(cid, t_in, api_kw, result, newtimes):
    """Protocol block for one get_modified_ts call. Options come from the API keywords."""
    sm = api_kw.get("set_metadata")
    tu = api_kw.get("time_units")
    tu = "generations" if tu is None else tu
    rp = api_kw.get("record_provenance", True)
    rp = True if rp is None else rp
    lines = [f"case {cid}", "op gmts",
             f"opts {tok(tu)} {'none' if sm is None else str(bool(sm)).lower()} {1 if rp else 0}",
             "defaults D D"]
    lines += abstract_tables(t_in)
    lines.append("rmean " + toks(result.posterior_mean))
    lines.append("rvar " + ("none" if result.posterior_var is None else toks(result.posterior_var)))
    lines.append("rmmean " + ("none" if result.mutation_mean is None else toks(result.mutation_mean)))
    lines.append("rmvar " + ("none" if result.mutation_var is None else toks(result.mutation_var)))
    lines.append("rmnode " + " ".join(str(int(x)) for x in result.mutation_node))
    lines.append("newtimes " + toks(newtimes))
    lines.append("provrow new new")
    lines.append("end")
    return "\n".join(lines) + "\n"


def canonical(lines, n_prov_in):
    """Canonical form modulo tskit's sort contract and with every time-like column masked."""
    out = dict(top=None, schemas=None, node=[], edge=[], site=[], mut=[], mutsites=[], ind=[], pop=[], mig=[], prov=[])
    for ln in lines:
        w = ln.split()
        k = w[0]
        if k in ("top", "schemas"):
            out[k] = w[1:]
        elif k == "node":
            out["node"].append((w[1], w[3], w[4], w[5]))
        elif k == "mut":
            out["mut"].append((w[1], w[2], w[4], w[6]))
            out["mutsites"].append(w[1])
        elif k == "prov":
            out["prov"].append(tuple(w[1:]) if len(out["prov"]) < n_prov_in else ("NEW",))
        else:
            out[k].append(tuple(w[1:]))
    out["edge"].sort()
    out["mig"].sort()
    out["mut"].sort()
    return out


def diff_canonical(a, b):
    """first table on which two canonical forms differ, or None"""
    for k in ("top", "schemas", "node", "edge", "site", "mutsites", "mut", "ind", "pop", "mig", "prov"):
        if a[k] != b[k]:
            detail = ""
            if isinstance(a[k], list) and len(a[k]) == len(b[k]):
                j = next(i for i in range(len(a[k])) if a[k][i] != b[k][i])
                detail = f" row {j}: {a[k][j]} vs {b[k][j]}"
            elif isinstance(a[k], list):
                detail = f" {len(a[k])} vs {len(b[k])} rows"
            return k + detail[:300]
    return None


def run_model(blocks):
    """blocks: list of (cid, text). Returns dict cid -> (status words, canonical-able lines) ."""
    if not blocks:
        return {}
    out = {}
    for ln in common.lean_driver("Pipeline", "".join(t for _, t in blocks)):
        if not ln.strip():
            continue
        head, *rest = ln.split(" | ")
        w = head.split()
        out[w[0]] = (w[1:], rest)
    return out


# ----------------------------------------------------------------------------- tskit sort contract

def sort_contract_problems(before, after):
    """The assumptions `SortRel` makes about tskit's sort, evaluated on one real call."""
    from collections import Counter
    bad = []
    if before.nodes != after.nodes:
        bad.append("nodes")
    if before.sites != after.sites:
        bad.append("sites")
    if before.individuals != after.individuals:
        bad.append("individuals")
    if before.populations != after.populations:
        bad.append("populations")
    if before.provenances != after.provenances:
        bad.append("provenances")

    def rows(tab, drop=()):
        cols = [c for c in tab.asdict() if c not in drop and not c.endswith("_schema")]
        return Counter(repr([(c, getattr(r, c, None)) for c in ("left", "right", "parent", "child", "node", "source", "dest", "time", "site",
                                                                  "derived_state", "metadata") if hasattr(r, c) and c not in drop]) for r in tab)
    if rows(before.edges) != rows(after.edges):
        bad.append("edges-multiset")
    if rows(before.migrations) != rows(after.migrations):
        bad.append("migrations-multiset")
    if rows(before.mutations, drop=("parent",)) != rows(after.mutations, drop=("parent",)):
        bad.append("mutations-multiset")
    if not np.array_equal(before.mutations.site, after.mutations.site):
        bad.append("mutation-site-column")
    return bad


def times_contract_problems(before, after):
    """The assumptions `TimesRel` makes about tskit's compute_mutation_times, on one real call."""
    from collections import Counter
    bad = []
    for name in ("nodes", "edges", "sites", "individuals", "populations", "migrations", "provenances"):
        if getattr(before, name) != getattr(after, name):
            bad.append(name)
    if not np.array_equal(before.mutations.site, after.mutations.site):
        bad.append("mutation-site-column")

    def rows(t):
        return Counter(repr((r.site, r.node, r.derived_state, r.metadata)) for r in t.mutations)
    if rows(before) != rows(after):
        bad.append("mutations-multiset")
    if before.mutations.metadata_schema != after.mutations.metadata_schema:
        bad.append("mutations-schema")
    return bad
