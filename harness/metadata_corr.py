"""
C32 support: abstract metadata cases, real tskit tables built from them, a recorder around
`EstimationMethod.set_time_metadata`, the Lean model runner (Driver/Metadata.lean) and the
canonical forms both sides are compared in.

Canonical forms
  value  : one token  <tag><body>; tag n = number (body = 16 hex digits of the double), s = string,
           o = anything else (body = hex of the canonical JSON text)
  cell   : None (zero bytes) or dict key -> value token (decoded object)
  schema : id string ("none", "default", or the id of the input schema)
"""

import json
import logging

import numpy as np

from . import common
from .common import f2h

SM = {False: "off", None: "auto", True: "force"}
METHODS = ["variational_gamma", "inside_outside", "maximization"]


# ----------------------------------------------------------------------------- canonical values

def cv(x):
    if isinstance(x, bool):
        return "o" + json.dumps(x).encode().hex()
    if isinstance(x, (int, float, np.integer, np.floating)):
        return "n" + f2h(float(x))
    if isinstance(x, str):
        return "s" + json.dumps(x).encode().hex()
    return "o" + json.dumps(x, sort_keys=True, separators=(",", ":")).encode().hex()


def spec_of(schema_dict, sid):
    """The abstract validator (Model/Metadata.lean `Spec`) of a tskit schema dict:
    (id, allowed|None, required, types).  Mirrors what jsonschema checks for an object schema and
    what tskit's struct codec adds (all properties required, no additional ones)."""
    if schema_dict is None:
        return None
    props = schema_dict.get("properties", {})
    if schema_dict.get("codec") == "struct":
        allowed = list(props)
        required = [k for k, v in props.items() if "default" not in v]
    elif len(props) == 0:
        # tskit: a JSON schema without properties is "trivial" and validation is bypassed altogether
        return dict(id=sid, allowed=None, required=[], types={})
    else:
        allowed = list(props) if schema_dict.get("additionalProperties", True) is False else None
        required = list(schema_dict.get("required", []))
    types = {}
    for k, v in props.items():
        t = v.get("type")
        if t in ("number", "integer"):
            types[k] = "n"
        elif t == "string":
            types[k] = "s"
    return dict(id=sid, allowed=allowed, required=required, types=types)


DEFAULT_SPEC = dict(id="default", allowed=None, required=[], types={"mn": "n", "vr": "n"})


def spec_line(sp):
    if sp is None:
        return "none"
    al = "*" if sp["allowed"] is None else (",".join(sp["allowed"]) or "-")
    rq = ",".join(sp["required"]) or "-"
    ty = ",".join(f"{k}:{t}" for k, t in sp["types"].items()) or "-"
    return f"{sp['id']} {al} {rq} {ty}"


# ----------------------------------------------------------------------------- schema classes

def _json(d):
    return json.dumps(d, sort_keys=True).encode()


def schema_classes():
    """The finite abstract domain: (name, tskit schema dict | None, row maker).  A row maker maps
    (i, n) to None (zero bytes), a dict (encoded by the codec), or bytes (packed as they are)."""
    perm = {"codec": "json"}
    req = {"codec": "json", "type": "object", "properties": {"name": {"type": "string"}}, "required": ["name"]}
    forbid = {"codec": "json", "type": "object", "properties": {"name": {"type": "string"}},
              "additionalProperties": False}
    forbid_mnvr = {"codec": "json", "type": "object",
                   "properties": {"name": {"type": "string"}, "mn": {"type": "number"}, "vr": {"type": "number"}},
                   "additionalProperties": False}
    mn_string = {"codec": "json", "type": "object", "properties": {"mn": {"type": "string"}}}
    st_ok = {"codec": "struct", "type": "object",
             "properties": {"k": {"type": "integer", "binaryFormat": "i"},
                            "mn": {"type": "number", "binaryFormat": "d"},
                            "vr": {"type": "number", "binaryFormat": "d"}}}
    st_only = {"codec": "struct", "type": "object",
               "properties": {"mn": {"type": "number", "binaryFormat": "d"},
                              "vr": {"type": "number", "binaryFormat": "d"}}}
    st_bad = {"codec": "struct", "type": "object", "properties": {"k": {"type": "integer", "binaryFormat": "i"}}}
    empty = lambda i, n: None  # noqa: E731
    named = lambda i, n: {"name": f"r{i}", "k": i}  # noqa: E731
    return [
        ("none/empty", None, empty),
        ("none/raw-bytes", None, lambda i, n: b"raw%d" % i),
        ("none/raw-bytes-some-rows", None, lambda i, n: (b"raw%d" % i if i == n - 1 else None)),
        ("permissive/empty", perm, empty),
        ("permissive/content", perm, named),
        ("permissive/stale-mn-vr", perm, lambda i, n: {"name": f"r{i}", "mn": -1.0 - i, "vr": -2.0, "z": [1, {"a": i}]}),
        ("permissive/some-rows-empty", perm, lambda i, n: ({"name": f"r{i}"} if i % 2 == 0 else None)),
        ("permissive/empty-objects", perm, lambda i, n: b"{}"),
        # tsdate's own default node/mutation schema, exactly as a first dating installs it (permissive: other keys allowed)
        ("default-schema/dated-before", "default", lambda i, n: {"mn": -1.0 - i, "vr": -3.0}),
        ("default-schema/mn-vr-and-other-keys", "default",
         lambda i, n: {"mn": -1.0 - i, "vr": -3.0, "name": f"r{i}", "tags": ["a", i], "rsid": f"rs{100 + i}"}),
        ("default-schema/other-keys-only", "default", lambda i, n: {"name": f"r{i}", "rsid": f"rs{i}"}),
        ("default-schema/other-keys-some-rows", "default", lambda i, n: ({"mn": -1.0, "vr": -3.0, "name": f"r{i}"} if i % 2 else None)),
        ("default-schema/empty", "default", empty),
        ("required-name/content", req, lambda i, n: {"name": f"r{i}"}),
        ("required-name/empty", req, empty),
        ("required-name/last-row-lacks-it", req, lambda i, n: _json({"name": "a"} if i < n - 1 else {"x": 1})),
        ("forbid-extra/content", forbid, lambda i, n: {"name": f"r{i}"}),
        ("forbid-extra/empty", forbid, empty),
        ("forbid-extra-but-mn-vr-declared/content", forbid_mnvr, lambda i, n: {"name": f"r{i}"}),
        ("mn-typed-string/content", mn_string, lambda i, n: {"mn": "old", "name": f"r{i}"}),
        ("struct-with-mn-vr/content", st_ok, lambda i, n: {"k": i, "mn": -1.0, "vr": -2.0}),
        ("struct-with-mn-vr/empty", st_ok, empty),
        ("struct-only-mn-vr/empty", st_only, empty),
        ("struct-without-mn-vr/content", st_bad, lambda i, n: {"k": i}),
    ]


def default_schema_for(table_name):
    from tsdate import schemas
    return schemas.default_node_schema if table_name == "nodes" else schemas.default_mutation_schema


def resolve_schema(sch, table_name):
    import tskit
    if sch is None:
        return tskit.MetadataSchema(None)
    if sch == "default":
        return default_schema_for(table_name)
    return tskit.MetadataSchema(sch)


def apply_class(tables, table_name, cls):
    """Install schema + rows of an abstract class on tables.<table_name>."""
    name, sch, maker = cls
    tb = getattr(tables, table_name)
    schema = resolve_schema(sch, table_name)
    tb.metadata_schema = schema
    n = tb.num_rows
    enc = []
    for i in range(n):
        r = maker(i, n)
        if r is None:
            enc.append(b"")
        elif isinstance(r, bytes):
            enc.append(r)
        else:
            enc.append(schema.validate_and_encode_row(r))
    tb.packset_metadata(enc)


# ----------------------------------------------------------------------------- table snapshots

def snapshot(table):
    """(schema object, list of row bytes)"""
    import tskit
    rows = [bytes(b) for b in tskit.unpack_bytes(table.metadata, table.metadata_offset)]
    return table.metadata_schema, rows


def schema_dict(schema):
    return None if schema.schema is None else json.loads(json.dumps(schema.schema))


def decode_cells(schema, rows):
    """Canonical cells of a table snapshot; raises ValueError for rows that are not objects."""
    cells = []
    for b in rows:
        if len(b) == 0:
            cells.append(None)
        elif schema.schema is None:
            cells.append({"raw": "o" + b.hex()})
        else:
            d = schema.decode_row(b)
            if not isinstance(d, dict):
                raise ValueError("row does not decode to an object")
            cells.append({str(k): cv(v) for k, v in d.items()})
    return cells


def schema_id(schema, pre_schema, pre_id, table_name):
    if schema.schema is None:
        return "none"
    if schema == pre_schema:
        return pre_id
    if schema == default_schema_for(table_name):
        return "default"
    return "other"


# ----------------------------------------------------------------------------- recorder

class Recorder:
    """Wraps EstimationMethod.set_time_metadata (looked up on the class at call time) and captures
    warnings of tsdate.core.  No source hook is needed."""

    def __init__(self):
        self.calls = []
        self.warnings = []

    def __enter__(self):
        import tsdate.core as core
        self.core = core
        self.orig = core.EstimationMethod.set_time_metadata
        rec = self

        def wrapper(self_m, table, mean, var, default_schema):
            tname = "nodes" if type(table).__name__ == "NodeTable" else "mutations"
            pre = snapshot(table)
            call = dict(table=tname, sm=self_m.set_metadata, pre=pre,
                        mean=None if mean is None else np.array(mean, dtype=float, copy=True),
                        var=None if var is None else np.array(var, dtype=float, copy=True),
                        post=None, raised=None, nwarn_before=len(rec.warnings))
            rec.calls.append(call)
            try:
                out = rec.orig(self_m, table, mean, var, default_schema)
            except BaseException as e:  # noqa: BLE001
                call["raised"] = f"{type(e).__name__}: {str(e)[:200]}"
                call["post"] = snapshot(table)
                raise
            call["post"] = snapshot(table)
            call["warned"] = any(type(table).__name__ in w for w in rec.warnings[call["nwarn_before"]:])
            return out

        core.EstimationMethod.set_time_metadata = wrapper

        class H(logging.Handler):
            def emit(h, record):  # noqa: N805
                if record.levelno >= logging.WARNING:
                    rec.warnings.append(record.getMessage())

        self.handler = H()
        self.logger = logging.getLogger("tsdate.core")
        self.old_level = self.logger.level
        self.old_prop = self.logger.propagate
        self.logger.setLevel(logging.WARNING)
        self.logger.propagate = False
        self.logger.addHandler(self.handler)
        return self

    def __exit__(self, *a):
        self.core.EstimationMethod.set_time_metadata = self.orig
        self.logger.removeHandler(self.handler)
        self.logger.setLevel(self.old_level)
        self.logger.propagate = self.old_prop
        return False


# ----------------------------------------------------------------------------- model

def encode_case(cid, sm, pre_spec, cells, mean, var):
    lines = [f"case {cid}", f"sm {SM[sm]}", "schema " + spec_line(pre_spec), "dflt " + spec_line(DEFAULT_SPEC)]
    for c in cells:
        if c is None:
            lines.append("cell -")
        else:
            lines.append("cell + " + " ".join(f"{k}={v}" for k, v in c.items()))
    lines.append("mean " + " ".join("n" + f2h(x) for x in ([] if mean is None else mean)))
    lines.append("var none" if var is None else "var some " + " ".join("n" + f2h(x) for x in var))
    lines.append("end")
    return "\n".join(lines) + "\n"


def parse_reply(line):
    parts = line.split()
    if len(parts) == 3 and parts[1].startswith("nodeVar="):
        return parts[0], " ".join(parts[1:])
    if len(parts) >= 2 and parts[1] == "bad-op":
        return parts[0], None
    cid, outcome, sid = parts[0], parts[1], parts[2]
    cells = []
    for tok in parts[3:]:
        if tok == "-":
            cells.append(None)
        else:
            d = {}
            body = tok[1:]
            if body:
                for kv in body.split(","):
                    k, _, v = kv.partition("=")
                    d[k] = v
            cells.append(d)
    return cid, dict(outcome=outcome, schema=sid, cells=cells)


def run_model(texts):
    """texts: dict id -> case text. Returns dict id -> reply dict | None."""
    if not texts:
        return {}
    lines = common.lean_driver("Metadata", "".join(texts.values()))
    out = {}
    for ln in lines:
        if ln.strip():
            cid, rep = parse_reply(ln)
            out[cid] = rep
    return out


def safe_keys(cells):
    import re
    ok = re.compile(r"^[A-Za-z0-9_]+$")
    return all(c is None or all(ok.match(k) for k in c) for c in cells)
