"""
Stage B/C plumbing for C36 (prior cache protocol).

* private cache directory (XDG_CACHE_HOME=/verif/.cache/xdg-<pid>, removed afterwards) so that
  ~/.cache/tsdate is never touched
* `Tracer`: records the file operations the REAL writer/reader perform (tempfile.mkstemp, os.fdopen →
  write/close, os.replace/rename/remove, open, np.savetxt(path), os.path.isfile, np.genfromtxt) as the
  model's op alphabet, and — with several writer threads — lets the harness impose a schedule and
  kill a writer at an operation boundary or in the middle of a write (a killed thread's later file
  operations, i.e. its `except BaseException` clean-up, are suppressed: a dead process runs nothing)
* real crashes: fork + RLIMIT_FSIZE (kernel delivers SIGXFSZ when the temp file reaches k bytes) —
  no monkeypatching at all
* strace cross-check of the traced op sequence
* Lean driver I/O for Driver/CacheFS.lean
"""

import builtins
import contextlib
import io
import os
import posixpath
import re
import shutil
import signal
import subprocess
import sys
import tempfile
import threading

import numpy as np

from . import common


# ----------------------------------------------------------------------------- private cache

@contextlib.contextmanager
def private_cache(tag=""):
    d = common.CACHE / f"xdg-{os.getpid()}{tag}"
    if d.exists():
        shutil.rmtree(d, ignore_errors=True)
    d.mkdir(parents=True)
    old = os.environ.get("XDG_CACHE_HOME")
    os.environ["XDG_CACHE_HOME"] = str(d)
    try:
        from tsdate import cache
        got = str(cache.get_cache_dir())
        if not got.startswith(str(d)):
            raise RuntimeError(f"cache dir {got} is not inside the private directory {d}")
        yield got
    finally:
        if old is None:
            os.environ.pop("XDG_CACHE_HOME", None)
        else:
            os.environ["XDG_CACHE_HOME"] = old
        shutil.rmtree(d, ignore_errors=True)


def clear_dir(d):
    for f in os.listdir(d):
        try:
            os.remove(os.path.join(d, f))
        except OSError:
            pass


def dir_state(d):
    return {f: open(os.path.join(d, f), "rb").read() for f in sorted(os.listdir(d))}


def footer_bytes():
    from tsdate import prior
    return ("# " + prior.PRECALC_CACHE_FOOTER).encode()


def quiet():
    import logging
    import warnings
    logging.disable(logging.CRITICAL)
    warnings.simplefilter("ignore")


# ----------------------------------------------------------------------------- tracer / scheduler

class Killed(BaseException):
    """Raised inside a writer thread to simulate the death of its process."""


class _Proxy:
    """File object handed to the real code in place of the one it opened; forwards every write
    (flushing at once, so that what the model calls `append` is what is in the file)."""

    def __init__(self, tracer, f, path):
        self._t, self._f, self._path = tracer, f, path
        self._closed = False

    def write(self, s):
        data = s.encode("latin1") if isinstance(s, str) else bytes(s)
        act = self._t._before(is_write=True)
        if act == "dead":
            return len(s)
        if isinstance(act, tuple):           # ('partial', k): deliver k bytes, then die
            k = min(act[1], len(data))
            part = data[:k]
            self._raw_write(part)
            self._t._record("append", self._path, part)
            self._t._die()
        self._raw_write(data)
        self._t._record("append", self._path, data)
        self._t._after()
        return len(s)

    def _raw_write(self, data):
        if "b" in getattr(self._f, "mode", "w"):
            self._f.write(data)
        else:
            self._f.write(data.decode("latin1"))
        self._f.flush()

    def flush(self):
        pass

    def close(self):
        if self._closed:
            return
        self._closed = True
        act = self._t._before()
        self._f.close()
        if act == "dead":
            return
        self._t._record("flush", self._path)
        self._t._after()

    def __enter__(self):
        return self

    def __exit__(self, *a):
        self.close()
        return False

    def __getattr__(self, name):
        return getattr(self._f, name)


class Tracer:
    """Install with `with Tracer(cache_dir, final) as tr:`; run writers with `tr.run_threads(...)` or
    call the real code directly from the main thread after `tr.register_main(w)`."""

    def __init__(self, cache_dir, final):
        self.dir = os.path.realpath(cache_dir)
        self.final = final
        self.ops = []                   # (w, name, args...) in global order
        self.cv = threading.Condition()
        self.reg = {}                   # thread ident -> writer index
        self.state = {}                 # w -> 'new' | 'waiting' | 'running' | 'done' | 'dead'
        self.turn = None
        self.killflag = {}              # w -> None | 'now' | ('partial', k)
        self.gen = {}                   # w -> number of granted actions completed (op done, died, finished)
        self.free_run = set()           # writers that are not scheduled (run without waiting)
        self.fdpath = {}
        self._saved = {}

    # ---- installation
    def __enter__(self):
        S = self._saved
        S["mkstemp"] = tempfile.mkstemp
        S["fdopen"] = os.fdopen
        S["replace"] = os.replace
        S["rename"] = os.rename
        S["remove"] = os.remove
        S["unlink"] = os.unlink
        S["open"] = builtins.open
        S["isfile"] = posixpath.isfile
        S["savetxt"] = np.savetxt
        S["genfromtxt"] = np.genfromtxt
        tempfile.mkstemp = self._mkstemp
        os.fdopen = self._fdopen
        os.replace = self._mk_rename("replace")
        os.rename = self._mk_rename("rename")
        os.remove = self._mk_remove("remove")
        os.unlink = self._mk_remove("unlink")
        builtins.open = self._open
        posixpath.isfile = self._isfile
        np.savetxt = self._savetxt
        np.genfromtxt = self._genfromtxt
        return self

    def __exit__(self, *a):
        S = self._saved
        tempfile.mkstemp = S["mkstemp"]
        os.fdopen = S["fdopen"]
        os.replace = S["replace"]
        os.rename = S["rename"]
        os.remove = S["remove"]
        os.unlink = S["unlink"]
        builtins.open = S["open"]
        posixpath.isfile = S["isfile"]
        np.savetxt = S["savetxt"]
        np.genfromtxt = S["genfromtxt"]
        return False

    # ---- who is calling
    def _w(self):
        return self.reg.get(threading.get_ident())

    def _inside(self, path):
        try:
            p = os.path.realpath(os.fspath(path))
        except TypeError:
            return False
        return isinstance(p, str) and p.startswith(self.dir + os.sep)

    def register_main(self, w):
        self.reg[threading.get_ident()] = w
        self.state[w] = "running"
        self.free_run.add(w)

    def unregister_main(self):
        self.reg.pop(threading.get_ident(), None)

    # ---- scheduling primitives (called from writer threads)
    def _before(self, is_write=False):
        w = self._w()
        if w is None:
            return "pass"
        if self.state.get(w) == "dead":
            return "dead"
        if w in self.free_run:
            return "go"
        with self.cv:
            self.state[w] = "waiting"
            self.cv.notify_all()
            while self.turn != w and not self.killflag.get(w):
                self.cv.wait()
            kf = self.killflag.get(w)
            if kf:
                if isinstance(kf, tuple) and is_write:
                    self.state[w] = "running"
                    return kf
                self.state[w] = "dead"
                if self.turn == w:
                    self.turn = None
                self.gen[w] = self.gen.get(w, 0) + 1
                self.cv.notify_all()
                raise Killed()
            self.state[w] = "running"
        return "go"

    def _after(self):
        w = self._w()
        if w is None or w in self.free_run:
            return
        with self.cv:
            if self.turn == w:
                self.turn = None
            self.state[w] = "ran"
            self.gen[w] = self.gen.get(w, 0) + 1
            self.cv.notify_all()

    def _die(self):
        w = self._w()
        with self.cv:
            self.state[w] = "dead"
            if self.turn == w:
                self.turn = None
            self.gen[w] = self.gen.get(w, 0) + 1
            self.cv.notify_all()
        raise Killed()

    def _record(self, name, *args):
        self.ops.append((self._w(), name) + args)

    # ---- hooks
    def _mkstemp(self, *a, **k):
        act = self._before()
        if act == "dead":
            raise Killed()
        fd, path = self._saved["mkstemp"](*a, **k)
        if act != "pass" and self._inside(path):
            self.fdpath[fd] = path
            self._record("createTemp", path)
        self._after()
        return fd, path

    def _fdopen(self, fd, *a, **k):
        f = self._saved["fdopen"](fd, *a, **k)
        if self._w() is not None and fd in self.fdpath:
            return _Proxy(self, f, self.fdpath.pop(fd))
        return f

    def _mk_rename(self, which):
        def hook(src, dst, *a, **k):
            if self._w() is None or not (self._inside(src) or self._inside(dst)):
                return self._saved[which](src, dst, *a, **k)
            act = self._before()
            if act == "dead":
                return None
            try:
                self._saved[which](src, dst, *a, **k)
                self._record("rename", os.fspath(src), os.fspath(dst))
            finally:
                self._after()
        return hook

    def _mk_remove(self, which):
        def hook(path, *a, **k):
            if self._w() is None or not self._inside(path):
                return self._saved[which](path, *a, **k)
            act = self._before()
            if act == "dead":
                return None
            try:
                self._saved[which](path, *a, **k)
                self._record("remove", os.fspath(path))
            finally:
                self._after()
        return hook

    def _open(self, file, mode="r", *a, **k):
        if self._w() is None or isinstance(file, int) or not self._inside(file):
            return self._saved["open"](file, mode, *a, **k)
        path = os.fspath(file)
        if any(c in mode for c in "wax+"):
            act = self._before()
            if act == "dead":
                raise Killed()
            f = self._saved["open"](file, mode, *a, **k)
            self._record("openTrunc" if "w" in mode else "openOther:" + mode, path)
            self._after()
            return _Proxy(self, f, path)
        # a look of the reader: the whole content is taken during this turn
        act = self._before()
        if act == "dead":
            raise Killed()
        try:
            try:
                with self._saved["open"](file, "rb") as f:
                    data = f.read()
            except OSError:
                self._record("look", path, None)
                raise
            self._record("look", path, data)
        finally:
            self._after()
        if "b" in mode:
            return io.BytesIO(data)
        return io.StringIO(data.decode("latin1").replace("\r\n", "\n").replace("\r", "\n"))

    def _isfile(self, path):
        if self._w() is None or not self._inside(path):
            return self._saved["isfile"](path)
        act = self._before()
        if act == "dead":
            raise Killed()
        try:
            r = self._saved["isfile"](path)
            data = None
            if r:
                with self._saved["open"](path, "rb") as f:
                    data = f.read()
            self._record("look", os.fspath(path), data)
        finally:
            self._after()
        return r

    def _savetxt(self, fname, X, *a, **k):
        if self._w() is None or hasattr(fname, "write") or not self._inside(fname):
            return self._saved["savetxt"](fname, X, *a, **k)
        # np.savetxt(path, …): numpy opens the path for writing itself
        with self._open(fname, "w") as f:
            return self._saved["savetxt"](f, X, *a, **k)

    def _genfromtxt(self, fname, *a, **k):
        if self._w() is None or hasattr(fname, "read") or not self._inside(fname):
            return self._saved["genfromtxt"](fname, *a, **k)
        with self._open(fname, "rb") as f:
            return self._saved["genfromtxt"](f, *a, **k)

    # ---- driving several writer threads from the main thread
    def run_threads(self, targets, schedule, timeout=30.0):
        """targets: list of callables (writer w = index).  schedule: list of entries
        w | ('kill', w) | ('partial', w, k).  When the schedule is exhausted every writer that has
        not finished is killed at its next operation.  Returns list of (result, exception) per writer."""
        results = [None] * len(targets)

        def body(w):
            self.reg[threading.get_ident()] = w
            try:
                results[w] = (targets[w](), None)
            except Killed:
                results[w] = (None, "killed")
            except BaseException as e:  # noqa: BLE001
                results[w] = (None, e)
            finally:
                with self.cv:
                    if self.state.get(w) != "dead":
                        self.state[w] = "done"
                    if self.turn == w:
                        self.turn = None
                    self.gen[w] = self.gen.get(w, 0) + 1
                    self.cv.notify_all()

        threads = []
        for w in range(len(targets)):
            self.state[w] = "new"
            t = threading.Thread(target=body, args=(w,), daemon=True)
            threads.append(t)
            t.start()

        def settled(w):
            return self.state[w] in ("waiting", "done", "dead")

        def wait_for(pred):
            with self.cv:
                if not self.cv.wait_for(pred, timeout=timeout):
                    raise RuntimeError(f"scheduler stuck: states={self.state} turn={self.turn}")

        for ent in list(schedule) + [("kill", w) for w in range(len(targets))]:
            if isinstance(ent, tuple):
                kind, w = ent[0], ent[1]
            else:
                kind, w = "step", ent
            wait_for(lambda: settled(w))
            if self.state[w] in ("done", "dead"):
                continue
            with self.cv:
                g = self.gen.get(w, 0)
                if kind == "step":
                    self.turn = w
                elif kind == "kill":
                    self.killflag[w] = "now"
                else:
                    self.killflag[w] = ("partial", ent[2])
                    self.turn = w
                self.cv.notify_all()
            # the granted action has been carried out (operation done, or the writer died / finished) …
            wait_for(lambda: self.gen.get(w, 0) != g)
            # … and the writer is parked at its next operation (or gone)
            wait_for(lambda: settled(w))
        for t in threads:
            t.join(timeout)
        return results


# ----------------------------------------------------------------------------- abstraction to the op alphabet

class PathIds:
    def __init__(self, final):
        self.ids = {os.path.realpath(final): 0}

    def __call__(self, p):
        p = os.path.realpath(p)
        if p not in self.ids:
            self.ids[p] = len(self.ids)
        return self.ids[p]


def abstract_ops(ops, final):
    """(w, name, args) → lines of the driver protocol; returns (lines, tmp_of_writer, looks)."""
    pid = PathIds(final)
    lines, tmps, looks, unknown = [], {}, [], []
    for op in ops:
        w, name = op[0], op[1]
        if name in ("createTemp", "openTrunc"):
            p = pid(op[2])
            tmps.setdefault(w, p)
            lines.append(f"op {w} {name} {p}")
        elif name == "append":
            p = pid(op[2])
            if op[3]:
                lines.append(f"op {w} append {p} {op[3].hex()}")
        elif name == "flush":
            lines.append(f"op {w} flush {pid(op[2])}")
        elif name == "rename":
            lines.append(f"op {w} rename {pid(op[2])} {pid(op[3])}")
        elif name == "remove":
            lines.append(f"op {w} remove {pid(op[2])}")
        elif name == "look":
            looks.append((w, op[3]))
            lines.append(f"op {w} look")
        else:
            unknown.append(op[:3])
    return lines, tmps, looks, pid, unknown


def hexs(b):
    return b.hex() if b else "-"


def run_block(cid, lines, tmps, nwriters, content, init, n):
    tl = []
    nxt = 1000
    for w in range(nwriters):
        if w in tmps:
            tl.append(f"tmp {w} {tmps[w]}")
        else:
            tl.append(f"tmp {w} {nxt}")
            nxt += 1
    return "\n".join([f"case {cid}", "kind run", "final 0", f"footer {footer_bytes().hex()}",
                      f"content {hexs(content)}", "init " + ("absent" if init is None else hexs(init)),
                      f"n {n}"] + tl + lines + ["end"]) + "\n"


def parse_reply(line):
    parts = line.split()
    d = dict(id=parts[0])
    if len(parts) > 1 and parts[1] == "bad-op":
        d["bad"] = True
        return d
    for p in parts[1:]:
        if "=" in p:
            k, v = p.split("=", 1)
            d[k] = v
        else:
            d.setdefault("rest", []).append(p)
    return d


def unhex(s):
    if s == "absent":
        return None
    if s == "-":
        return b""
    return bytes.fromhex(s)


# ----------------------------------------------------------------------------- real crash: fork + RLIMIT_FSIZE

def fork_crash(n, k, mode):
    """Run the real `ConditionalCoalescentTimes(n)` in a forked child whose files may not grow beyond
    k bytes.  mode 'kill': SIGXFSZ kills it mid-write (the kernel has delivered exactly k bytes);
    mode 'efbig': the write raises OSError(EFBIG) and the code's own error path runs.
    Returns the child's wait status."""
    import resource
    from tsdate import prior
    pid = os.fork()
    if pid == 0:
        try:
            resource.setrlimit(resource.RLIMIT_CORE, (0, 0))
            dn = os.open("/dev/null", os.O_WRONLY)
            os.dup2(dn, 1)
            os.dup2(dn, 2)
            signal.signal(signal.SIGXFSZ, signal.SIG_DFL if mode == "kill" else signal.SIG_IGN)
            resource.setrlimit(resource.RLIMIT_FSIZE, (k, k))
            prior.ConditionalCoalescentTimes(n)
            os._exit(0)
        except BaseException:  # noqa: BLE001
            os._exit(7)
    _, st = os.waitpid(pid, 0)
    return st


# ----------------------------------------------------------------------------- strace cross-check

STRACE_SCRIPT = r"""
import os, sys
sys.path.insert(0, {verif!r})
from harness import common
common.setup_env()
import logging; logging.disable(logging.CRITICAL)
from tsdate import prior
os.write(2, b"@@BEGIN\n")
c = prior.ConditionalCoalescentTimes({n})
os.write(2, b"@@MID\n")
c = prior.ConditionalCoalescentTimes({n})
os.write(2, b"@@END\n")
"""


def strace_ops(n, xdg_dir, timeout=600):
    """Run writer then reader in a fresh interpreter under strace; return the syscalls that touch the
    cache directory between the markers, abstracted to (name, path, …) tuples, or None if strace is
    not usable here."""
    if shutil.which("strace") is None:
        return None
    out = os.path.join(xdg_dir, "..", f"strace-{os.getpid()}.txt")
    out = os.path.realpath(out)
    env = dict(os.environ, XDG_CACHE_HOME=xdg_dir)
    script = STRACE_SCRIPT.format(verif=str(common.VERIF), n=n)
    cmd = ["strace", "-f", "-y", "-s", "64", "-o", out,
           "-e", "trace=openat,open,creat,write,close,rename,renameat,renameat2,unlink,unlinkat,ftruncate,fsync,fdatasync",
           sys.executable, "-c", script]
    try:
        r = subprocess.run(cmd, env=env, capture_output=True, text=True, timeout=timeout)
    except (OSError, subprocess.TimeoutExpired):
        return None
    try:
        text = open(out, errors="replace").read()
    except OSError:
        return None
    finally:
        with contextlib.suppress(OSError):
            os.remove(out)
    if r.returncode != 0 or "@@BEGIN" not in text:
        return None
    seg = text.split("@@BEGIN", 1)[1].split("@@END", 1)[0]
    cdir = os.path.realpath(os.path.join(xdg_dir, "tsdate"))
    ops = []
    for line in seg.splitlines():
        if cdir not in line:
            continue
        m = re.search(r"(openat|open|creat)\((?:AT_FDCWD[^,]*, )?\"([^\"]+)\", ([A-Z_|0-9]+)", line)
        if m:
            if "= -1" in line:
                ops.append(("open-failed", m.group(2), m.group(3)))
            else:
                ops.append(("open", m.group(2), m.group(3)))
            continue
        m = re.search(r"write\(\d+<([^>]+)>, .*, (\d+)\)\s+= (\d+)", line)
        if m:
            ops.append(("write", m.group(1), int(m.group(3))))
            continue
        m = re.search(r"(rename|renameat2?|)\((?:AT_FDCWD[^,]*, )?\"([^\"]+)\", (?:AT_FDCWD[^,]*, )?\"([^\"]+)\"", line)
        if m and "rename" in line:
            ops.append(("rename", m.group(2), m.group(3)))
            continue
        m = re.search(r"(unlink|unlinkat)\((?:AT_FDCWD[^,]*, )?\"([^\"]+)\"", line)
        if m:
            ops.append(("unlink", m.group(2)))
            continue
        m = re.search(r"(fsync|fdatasync|ftruncate)\(\d+<([^>]+)>", line)
        if m:
            ops.append((m.group(1), m.group(2)))
            continue
        m = re.search(r"close\(\d+<([^>]+)>\)", line)
        if m:
            ops.append(("close", m.group(1)))
    return ops
