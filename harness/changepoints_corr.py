"""
Stage B/C plumbing for C26: the Lean `Changepoints` model against the real numba helpers
`tsdate.rescaling._fixed_changepoints` / `_poisson_changepoints`, and reference oracles that state the
property directly (exact rationals for the fixed helper, brute force over all segmentations for PELT).
"""

import itertools
import math
from fractions import Fraction

import numpy as np

from . import common
from .common import f2h, f2q

INF = math.inf


# ----------------------------------------------------------------------------- real code

def real_fixed(counts, epochs):
    from tsdate.rescaling import _fixed_changepoints
    return [int(x) for x in _fixed_changepoints(np.asarray(counts, dtype=float), int(epochs))]


def real_pelt(counts, offs, pen, minc, mino):
    """-> list of ints, or 'K' (KeyError), or 'E:<Type>'"""
    from tsdate.rescaling import _poisson_changepoints
    try:
        r = _poisson_changepoints(np.asarray(counts, dtype=float), np.asarray(offs, dtype=float),
                                  float(pen), float(minc), float(mino))
        return [int(x) for x in r]
    except KeyError:
        return "K"
    except Exception as e:  # noqa: BLE001
        return f"E:{type(e).__name__}"


# ----------------------------------------------------------------------------- oracles (the statement)

def spec_fixed(counts, epochs):
    """Exact-rational reading of the statement: boundary k = last index i with Y[i]/Y[n] <= k/epochs
    (Y = exact cumulative sums of the given floats); ends 0 and n.  Also returns, per interior k, whether some
    Y[i]/Y[n] equals k/epochs exactly (a tie that rounding may decide either way)."""
    Y = [Fraction(0)]
    for c in counts:
        Y.append(Y[-1] + Fraction(float(c)))
    tot = Y[-1]
    n = len(counts)
    out, ties = [0], []
    for k in range(1, epochs):
        z = Fraction(k, epochs)
        last = max(i for i in range(n + 1) if Y[i] <= z * tot)
        out.append(last)
        ties.append(any(Y[i] == z * tot for i in range(n + 1)))
    out.append(n)
    return out, ties


def spec_fixed_strict(counts, epochs, k):
    """last index i with Y[i]/Y[n] strictly below k/epochs (what the code returns when its grid value rounds below the
    exact fraction at an exact tie)"""
    Y = [Fraction(0)]
    for c in counts:
        Y.append(Y[-1] + Fraction(float(c)))
    z = Fraction(k, epochs) * Y[-1]
    return max(i for i in range(len(counts) + 1) if Y[i] < z)


def near_tie(counts, epochs, rel=1e-12):
    """some cumulative fraction is within `rel` of some k/epochs (float rounding of the cumulative sums or of the
    grid may move the boundary by one index there)"""
    Y = np.append(0.0, np.cumsum(np.asarray(counts, dtype=float)))
    Z = Y / Y[-1]
    z = np.arange(epochs + 1) / epochs
    return bool(np.any(np.abs(Z[:, None] - z[None, :]) <= rel * np.maximum(1.0, np.abs(z[None, :]))))


def loss_table(counts, offs, minc, mino, zero_log_zero=0.0):
    """loss[i][j] for i<j: inf if infeasible, else -2y(log y - log n - 1) with 0 log 0 := 0"""
    d = len(counts)
    N = [0.0]
    Y = [0.0]
    for c, o in zip(counts, offs):
        N.append(N[-1] + float(o))
        Y.append(Y[-1] + float(c))
    tab = [[INF] * (d + 1) for _ in range(d + 1)]
    for i in range(d):
        for j in range(i + 1, d + 1):
            n, y = N[j] - N[i], Y[j] - Y[i]
            if n < mino or y < minc:
                continue
            tab[i][j] = zero_log_zero if y == 0 else -2 * y * (math.log(y) - math.log(n) - 1)
    return tab


def all_segmentations(d):
    for mask in range(1 << (d - 1)):
        yield [0] + [k + 1 for k in range(d - 1) if mask >> k & 1] + [d]


def seg_cost(tab, pen, seg):
    return -pen + sum(tab[a][b] + pen for a, b in zip(seg[:-1], seg[1:]))


def brute_optimum(tab, pen, d):
    best, arg = INF, None
    for seg in all_segmentations(d):
        c = seg_cost(tab, pen, seg)
        if c < best:
            best, arg = c, seg
    return best, arg


def ref_pelt_nanfree(tab, pen, d):
    """the code's pruned recursion on a NaN-free loss table (isolates the pruning mechanism from 0*log 0)"""
    F = [-pen] + [INF] * d
    C = {0: []}
    for j in range(1, d + 1):
        cost, argmin, minval = {}, 0, INF
        for i in C:
            cost[i] = F[i] + tab[i][j] + pen
            if cost[i] < minval:
                minval, argmin = cost[i], i
        F[j] = minval
        for i in list(C):
            if cost[i] > F[j] + pen:
                C.pop(i)
        if argmin not in C:
            return "K"
        C[j] = C[argmin] + [argmin]
    return C[d] + [d]


def classify_pelt(counts, offs, pen, minc, mino, got):
    """Compare the code's answer with the statement. Returns (kind or None, what, detail-dict)."""
    d = len(counts)
    tab = loss_table(counts, offs, minc, mino)
    best, arg = brute_optimum(tab, pen, d)
    has_min = minc > 0 or mino > 0
    has_zero = any(float(c) == 0 for c in counts)
    info = dict(optimum=arg, optimum_cost=best)
    if best == INF:
        return None, "no feasible segmentation", dict(info, vacuous=True)
    if got == "K":
        kind = "pelt-keyerror-with-min-constraints" if has_min else "pelt-keyerror-unconstrained"
        return kind, "KeyError: the best candidate had been pruned", info
    if isinstance(got, str):
        return "pelt-raises", f"raised {got}", info
    ok_shape = len(got) >= 2 and got[0] == 0 and got[-1] == d and all(a < b for a, b in zip(got[:-1], got[1:]))
    if not ok_shape:
        return "pelt-invalid-segmentation", f"returned {got}, not an increasing list from 0 to {d}", info
    c = seg_cost(tab, pen, got)
    info["returned_cost"] = c
    if c <= best + 1e-9 * max(1.0, abs(best)):
        return None, "optimal", info
    # which mechanism?
    if not has_min and not has_zero:
        return ("pelt-nonoptimal-unconstrained",
                f"returned {got} (cost {c:.6g}), optimum {arg} (cost {best:.6g}) with no minimum constraints and positive counts", info)
    if has_min and not has_zero:
        kind = "pelt-pruning-drops-infeasible-candidates"
    elif has_zero and not has_min:
        kind = "pelt-nan-on-zero-count-segment"
    else:
        ref = ref_pelt_nanfree(tab, pen, d)
        ref_c = INF if isinstance(ref, str) else seg_cost(tab, pen, ref)
        kind = ("pelt-pruning-drops-infeasible-candidates" if ref_c > best + 1e-9 * max(1.0, abs(best))
                else "pelt-nan-on-zero-count-segment")
    return kind, f"returned {got} (cost {c:.6g}), optimum {arg} (cost {best:.6g})", info


# ----------------------------------------------------------------------------- line protocol

def enc_fixed(i, counts, epochs, num="f"):
    op, f = ("fixed", f2h) if num == "f" else ("fixedq", f2q)
    return "\n".join([f"case {i}", f"op {op}", "counts " + " ".join(f(x) for x in counts), f"epochs {epochs}", "end"]) + "\n"


def enc_pelt(i, counts, offs, pen, minc, mino):
    return "\n".join([f"case {i}", "op pelt", "counts " + " ".join(f2h(x) for x in counts),
                      "offs " + " ".join(f2h(x) for x in offs), f"pen {f2h(pen)}", f"minc {f2h(minc)}",
                      f"mino {f2h(mino)}", "end"]) + "\n"


def enc_enum(i, spec):
    mins = [x for pair in spec["minima"] for x in pair]
    return "\n".join([f"case {i}", "op enum", "lens " + " ".join(map(str, spec["lens"])),
                      "calpha " + " ".join(map(str, spec["calpha"])), "oalpha " + " ".join(map(str, spec["oalpha"])),
                      "epochs " + " ".join(map(str, spec["epochs"])), "pens " + " ".join(f2h(x) for x in spec["pens"]),
                      "minima " + " ".join(f2h(x) for x in mins), "end"]) + "\n"


def enum_cases(spec):
    """the same order as Driver/Changepoints.lean `runEnum`: yields ('F', counts, epochs) / ('P', counts, offs, pen, minc, mino)"""
    for n in spec["lens"]:
        ovs = list(itertools.product(spec["oalpha"], repeat=n))
        for cv in itertools.product(spec["calpha"], repeat=n):
            for e in spec["epochs"]:
                yield ("F", cv, e)
            for ov in ovs:
                for pen in spec["pens"]:
                    for mc, mo in spec["minima"]:
                        yield ("P", cv, ov, pen, mc, mo)


def parse_pelt_line(s):
    """'P 0 4 D 0 2 4' -> ([0,4] | 'K', [0,2,4] | 'K')"""
    w = s.split()
    k = w.index("D")
    conv = lambda xs: "K" if xs == ["K"] else [int(x) for x in xs]   # noqa: E731
    return conv(w[1:k]), conv(w[k + 1:])


def parse_fixed_line(s):
    w = s.split()
    return None if w[1:] == ["-"] else [int(x) for x in w[1:]]


def run_driver(text):
    return common.lean_driver("Changepoints", text)
