"""
Input generators.  All randomness comes from a numpy Generator handed in by the caller, so that a
case is reproducible from (VERIF_SEED, property, case index).

gen_ts(rng, ...) draws a small msprime tree sequence whose parameters are derived from a *target*
tree count and mutation density, then applies structured mutilations, each with some probability.
The mutilations that fired are returned in `info` and end up in the evidence files.
"""

import numpy as np


def _imports():
    import msprime
    import tskit
    return msprime, tskit


def sim_ts(rng, n=None, trees=None, muts_per_edge=None, historical=False, ploidy=1, Ne=None, L=None):
    msprime, tskit = _imports()
    n = int(rng.integers(2, 9)) if n is None else n
    trees = int(rng.choice([1, 1, 2, 3, 5, 8, 15, 30])) if trees is None else trees
    Ne = float(rng.choice([100, 1e3, 1e4])) if Ne is None else Ne
    L = float(rng.choice([1e3, 1e4, 1e5])) if L is None else L
    muts_per_edge = float(rng.choice([0.3, 1, 3, 8])) if muts_per_edge is None else muts_per_edge
    k = n * ploidy
    hsum = sum(1.0 / i for i in range(1, k))
    rho = 0.0 if trees <= 1 else (trees - 1) / (4 * Ne * L * hsum)
    seed = int(rng.integers(1, 2**31 - 1))
    if historical:
        n_old = max(1, n // 3)
        samples = [msprime.SampleSet(n - n_old, time=0, ploidy=ploidy)]
        times = sorted(float(x) for x in rng.uniform(0.05, 1.5, size=n_old) * Ne)
        for tm in times:
            samples.append(msprime.SampleSet(1, time=tm, ploidy=ploidy))
    else:
        samples = [msprime.SampleSet(n, time=0, ploidy=ploidy)]
    ts = msprime.sim_ancestry(samples=samples, population_size=Ne, sequence_length=L,
                              recombination_rate=rho, random_seed=seed, discrete_genome=True)
    # total branch area
    area = float(np.sum((ts.edges_right - ts.edges_left) * (ts.nodes_time[ts.edges_parent] - ts.nodes_time[ts.edges_child])))
    mu = muts_per_edge * ts.num_edges / max(area, 1e-300)
    ts = msprime.sim_mutations(ts, rate=mu, random_seed=seed + 1, discrete_genome=True)
    return ts, dict(n=n, ploidy=ploidy, trees=ts.num_trees, Ne=Ne, L=L, mu=mu, historical=historical,
                    sites=ts.num_sites, muts=ts.num_mutations, edges=ts.num_edges, nodes=ts.num_nodes, seed=seed)


def scale_times(ts, c):
    tables = ts.dump_tables()
    tables.nodes.time = tables.nodes.time * c
    mt = tables.mutations.time
    tables.mutations.time = np.where(np.isnan(mt), mt, mt * c)
    return tables.tree_sequence()


def permute_nodes(ts, rng, keep_samples_first=True):
    """Renumber nodes (samples keep their ids when keep_samples_first)."""
    msprime, tskit = _imports()
    n = ts.num_nodes
    samples = list(ts.samples())
    if keep_samples_first and samples == list(range(len(samples))):
        rest = np.arange(len(samples), n)
        order = np.concatenate([np.arange(len(samples)), rng.permutation(rest)])
    else:
        order = rng.permutation(n)
    tables = ts.dump_tables()
    tables.subset(order.astype(np.int32), record_provenance=False)
    tables.sort()
    tables.build_index()
    tables.compute_mutation_parents()
    return tables.tree_sequence(), order


def delete_gaps(ts, rng, k=1):
    L = ts.sequence_length
    ivs = []
    for _ in range(k):
        a = float(np.floor(rng.uniform(0, L - 2)))
        b = float(min(L, a + np.ceil(rng.uniform(1, max(2, L / 6)))))
        ivs.append((a, b))
    ivs.sort()
    merged = []
    for a, b in ivs:
        if merged and a <= merged[-1][1]:
            merged[-1] = (merged[-1][0], max(b, merged[-1][1]))
        else:
            merged.append((a, b))
    return ts.delete_intervals(merged, simplify=False), merged


def add_root_mutations(ts, rng, k=2):
    """Add k new sites with a mutation above a root node."""
    msprime, tskit = _imports()
    tables = ts.dump_tables()
    used = set(tables.sites.position)
    added = 0
    for _ in range(10 * k):
        if added >= k:
            break
        pos = float(np.floor(rng.uniform(0, ts.sequence_length)))
        if pos in used:
            continue
        tree = ts.at(pos)
        roots = [r for r in tree.roots]
        if not roots:
            continue
        root = int(rng.choice(roots))
        s = tables.sites.add_row(position=pos, ancestral_state="A")
        tables.mutations.add_row(site=s, node=root, derived_state="T", time=tskit.UNKNOWN_TIME)
        used.add(pos)
        added += 1
    tables.sort()
    tables.build_index()
    tables.compute_mutation_parents()
    mt = tables.mutations.time
    if not np.all(np.isnan(mt)):
        tables.mutations.time = np.full_like(mt, tskit.UNKNOWN_TIME)
    return tables.tree_sequence(), added


def rich_metadata(ts, rng):
    """Attach permissive JSON metadata to nodes/mutations/individuals/populations."""
    msprime, tskit = _imports()
    import json
    tables = ts.dump_tables()
    schema = tskit.MetadataSchema.permissive_json()
    tables.nodes.metadata_schema = schema
    tables.nodes.packset_metadata([json.dumps({"name": f"n{i}", "k": int(rng.integers(0, 9))}).encode() for i in range(ts.num_nodes)])
    tables.mutations.metadata_schema = schema
    tables.mutations.packset_metadata([json.dumps({"m": i}).encode() for i in range(ts.num_mutations)])
    return tables.tree_sequence()


def polytomise(ts, rng, frac=0.3):
    """Collapse a random subset of internal (non-sample, non-root-everywhere) nodes: each removed
    node's children are attached to its parent over the overlap.  Result is simplified so that no
    unary nodes remain."""
    msprime, tskit = _imports()
    tables = ts.dump_tables()
    internal = [u for u in range(ts.num_nodes) if not ts.node(u).is_sample()]
    has_parent = set(ts.edges_parent) & set(ts.edges_child)
    cand = [u for u in internal if u in has_parent]
    if not cand:
        return ts, 0
    kill = set(int(u) for u in cand if rng.random() < frac)
    if not kill:
        return ts, 0
    edges = [(e.left, e.right, e.parent, e.child) for e in ts.edges()]
    changed = True
    while changed:
        changed = False
        for u in list(kill):
            up = [e for e in edges if e[3] == u]
            down = [e for e in edges if e[2] == u]
            rest = [e for e in edges if e[2] != u and e[3] != u]
            new = []
            for (l1, r1, p, _) in up:
                for (l2, r2, _, c) in down:
                    l, r = max(l1, l2), min(r1, r2)
                    if l < r:
                        new.append((l, r, p, c))
            # parts of `down` not covered by any `up` edge: keep u there (it is a root there)
            keep_down = []
            for (l2, r2, _, c) in down:
                segs = [(l2, r2)]
                for (l1, r1, _, _) in up:
                    nxt = []
                    for (a, b) in segs:
                        if r1 <= a or l1 >= b:
                            nxt.append((a, b))
                        else:
                            if a < l1:
                                nxt.append((a, l1))
                            if r1 < b:
                                nxt.append((r1, b))
                    segs = nxt
                keep_down += [(a, b, u, c) for (a, b) in segs]
            edges = rest + new + keep_down
            kill.discard(u)
            changed = True
    tables.edges.clear()
    for (l, r, p, c) in edges:
        tables.edges.add_row(l, r, p, c)
    # mutations on removed nodes: move to nothing sensible -> drop those mutations' sites is too
    # invasive; instead re-simulate mutations afterwards (caller) if needed
    tables.sort()
    try:
        tables.build_index()
        tables.compute_mutation_parents()
        out = tables.tree_sequence().simplify(keep_unary=False, filter_sites=False)
    except Exception:
        return ts, 0
    return out, 1


def mark_internal_samples(ts, rng, k=1):
    """Flag k random non-sample nodes as samples (ancestral samples with children)."""
    msprime, tskit = _imports()
    tables = ts.dump_tables()
    flags = tables.nodes.flags
    internal = np.where((flags & tskit.NODE_IS_SAMPLE) == 0)[0]
    if internal.size == 0:
        return ts, []
    pick = rng.choice(internal, size=min(k, internal.size), replace=False)
    flags[pick] |= tskit.NODE_IS_SAMPLE
    tables.nodes.flags = flags
    return tables.tree_sequence(), [int(x) for x in pick]


def extra_flag_bits(ts, rng):
    """Set flag bits other than NODE_IS_SAMPLE on random nodes (tsinfer marks historical samples with
    1<<20, tsdate's preprocessing marks split nodes with 1<<30; users may use the remaining bits)."""
    tables = ts.dump_tables()
    flags = tables.nodes.flags.copy()
    for b in (1 << 20, 1 << 30, 2):
        flags |= (rng.random(flags.size) < 0.35).astype(flags.dtype) * flags.dtype.type(b)
    tables.nodes.flags = flags
    return tables.tree_sequence()


def star_ts(rng, n=None, trees=1, L=100.0):
    """Every edge joins the single non-sample parent (per tree) to a sample at time 0."""
    msprime, tskit = _imports()
    n = int(rng.integers(2, 8)) if n is None else n
    tables = tskit.TableCollection(sequence_length=L)
    for _ in range(n):
        tables.nodes.add_row(flags=tskit.NODE_IS_SAMPLE, time=0)
    breaks = [0.0] + sorted(float(np.floor(x)) for x in rng.uniform(1, L - 1, size=trees - 1)) + [L]
    breaks = sorted(set(breaks))
    for i in range(len(breaks) - 1):
        p = tables.nodes.add_row(flags=0, time=1.0 + i)
        for c in range(n):
            tables.edges.add_row(breaks[i], breaks[i + 1], p, c)
    tables.sort()
    return tables.tree_sequence()


def gen_ts(rng, **kw):
    """One structured random input + info dict (which mutilations fired)."""
    p = dict(historical=0.0, gaps=0.0, rootmuts=0.0, metadata=0.0, permute=0.0, polytomy=0.0, internal_samples=0.0,
             extra_flags=0.0)
    p.update({k: v for k, v in kw.items() if k in p})
    simkw = {k: v for k, v in kw.items() if k not in p}
    hist = rng.random() < p["historical"]
    ts, info = sim_ts(rng, historical=hist, **simkw)
    fired = []
    if hist:
        fired.append("historical")
    if rng.random() < p["polytomy"]:
        ts2, ok = polytomise(ts, rng)
        if ok and ts2.num_edges > 0:
            ts = ts2
            fired.append("polytomy")
    if rng.random() < p["internal_samples"]:
        ts, picked = mark_internal_samples(ts, rng, k=int(rng.integers(1, 3)))
        if picked:
            fired.append("internal_samples")
    if rng.random() < p["gaps"] and ts.sequence_length > 10:
        ts, ivs = delete_gaps(ts, rng, k=int(rng.integers(1, 3)))
        fired.append("gaps")
    if rng.random() < p["rootmuts"]:
        ts, k = add_root_mutations(ts, rng)
        if k:
            fired.append("rootmuts")
    if rng.random() < p["metadata"]:
        ts = rich_metadata(ts, rng)
        fired.append("metadata")
    if rng.random() < p["permute"]:
        ts, _ = permute_nodes(ts, rng)
        fired.append("permute")
    if p["extra_flags"] and rng.random() < p["extra_flags"]:
        ts = extra_flag_bits(ts, rng)
        fired.append("extra_flags")
    info["fired"] = fired
    info.update(trees=ts.num_trees, nodes=ts.num_nodes, edges=ts.num_edges, muts=ts.num_mutations, sites=ts.num_sites)
    return ts, info


def ts_to_jsonable(ts):
    """Small, self-contained description for replay files."""
    t = ts.dump_tables()
    return dict(
        sequence_length=ts.sequence_length,
        nodes=dict(flags=t.nodes.flags.tolist(), time=[float(x).hex() for x in t.nodes.time],
                   individual=t.nodes.individual.tolist(), population=t.nodes.population.tolist()),
        edges=dict(left=t.edges.left.tolist(), right=t.edges.right.tolist(), parent=t.edges.parent.tolist(), child=t.edges.child.tolist()),
        sites=dict(position=t.sites.position.tolist(), ancestral_state=[s.ancestral_state for s in ts.sites()]),
        mutations=dict(site=t.mutations.site.tolist(), node=t.mutations.node.tolist(), derived_state=[m.derived_state for m in ts.mutations()]),
        individuals=dict(flags=t.individuals.flags.tolist()),
        num_populations=t.populations.num_rows,
    )


def ts_from_jsonable(d):
    msprime, tskit = _imports()
    tables = tskit.TableCollection(sequence_length=d["sequence_length"])
    for _ in range(d.get("num_populations", 0)):
        tables.populations.add_row()
    for f in d.get("individuals", {}).get("flags", []):
        tables.individuals.add_row(flags=f)
    nd = d["nodes"]
    for i in range(len(nd["flags"])):
        tables.nodes.add_row(flags=nd["flags"][i], time=float.fromhex(nd["time"][i]),
                             individual=nd["individual"][i], population=nd["population"][i])
    ed = d["edges"]
    for i in range(len(ed["left"])):
        tables.edges.add_row(ed["left"][i], ed["right"][i], ed["parent"][i], ed["child"][i])
    sd = d["sites"]
    for i in range(len(sd["position"])):
        tables.sites.add_row(sd["position"][i], sd["ancestral_state"][i])
    md = d["mutations"]
    for i in range(len(md["site"])):
        tables.mutations.add_row(md["site"][i], md["node"][i], md["derived_state"][i], time=tskit.UNKNOWN_TIME)
    tables.sort()
    tables.build_index()
    tables.compute_mutation_parents()
    return tables.tree_sequence()
