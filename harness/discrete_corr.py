"""
Shared code of the "Discrete" cluster (C10, C12; also usable by C11/C13/C38).

* exhaustive small inputs: all rooted tree shapes (binary + polytomies) with k leaves, as tskit tree
  sequences with a chosen number of mutations per edge
* prior grids (tsdate's own conditional-coalescent grid, or arbitrary non-negative rows)
* `run_impl`: the real Likelihoods/LogLikelihoods + BeliefPropagation, returning every intermediate
  array the model also produces
* `run_model`: the Lean model (Driver/Discrete.lean) at Float or Rat on the *same* tables
* `brute_force`: the statement of C10 — exact marginals / normaliser of
  prior x Poisson edge likelihood x [child <= parent] by enumeration (independent of the
  implementation's tables and of the model)
"""

import itertools
import math
from fractions import Fraction

import numpy as np

from . import common
from .common import f2h, f2q, h2f, q2frac

LIN, LOG = "linear", "logarithmic"


# ----------------------------------------------------------------------------- tree shapes

def _partitions(n, maxpart=None):
    """integer partitions of n into parts <= maxpart, non-increasing"""
    maxpart = n if maxpart is None else maxpart
    if n == 0:
        yield ()
        return
    for p in range(min(n, maxpart), 0, -1):
        for rest in _partitions(n - p, p):
            yield (p,) + rest


_shape_cache = {}


def tree_shapes(k):
    """All rooted unlabelled tree shapes with k leaves in which every internal node has >= 2 children.
    A leaf is (); an internal node is a sorted tuple of child shapes."""
    if k in _shape_cache:
        return _shape_cache[k]
    if k == 1:
        out = [()]
    else:
        found = set()
        for part in _partitions(k):
            if len(part) < 2:
                continue
            for combo in itertools.product(*[tree_shapes(p) for p in part]):
                found.add(tuple(sorted(combo, key=repr)))
        out = sorted(found, key=repr)
    _shape_cache[k] = out
    return out


def shape_edges(shape):
    """Number the nodes of a shape: leaves 0..k-1 first, then internal nodes in post-order.
    Returns (k, n_nodes, edges[(parent, child)], height[node])."""
    leaves, internals = [], []

    def count(s):
        if s == ():
            leaves.append(s)
        else:
            for c in s:
                count(c)
            internals.append(s)
    count(shape)
    k = len(leaves)
    nxt_leaf = [0]
    nxt_int = [k]
    edges, height = [], {}

    def build(s):
        if s == ():
            u = nxt_leaf[0]
            nxt_leaf[0] += 1
            height[u] = 0
            return u
        kids = [build(c) for c in s]
        u = nxt_int[0]
        nxt_int[0] += 1
        height[u] = 1 + max(height[c] for c in kids)
        for c in kids:
            edges.append((u, c))
        return u
    build(shape)
    return k, k + len(internals), edges, height


def ts_from_shape(shape, muts, perm=None, L=1000.0, root_muts=0, stacked=0):
    """tskit tree sequence of a shape.  `muts[i]` = number of mutations on the i-th edge of
    `shape_edges(shape)`.  `perm` optionally renumbers the internal nodes (a permutation of them).
    `root_muts` extra sites carry one mutation *above the root* (mutation.edge == NULL: on no edge);
    `stacked` extra sites carry two mutations: one above the root and one on the first edge (several
    mutations per site; only the second lies on an edge)."""
    import tskit
    k, n, edges, height = shape_edges(shape)
    ids = list(range(n))
    if perm is not None:
        for a, b in zip(range(k, n), perm):
            ids[a] = b
    inv = {ids[u]: u for u in range(n)}
    tables = tskit.TableCollection(sequence_length=L)
    for new in range(n):
        u = inv[new]
        tables.nodes.add_row(flags=tskit.NODE_IS_SAMPLE if u < k else 0, time=float(height[u]))
    for (p, c) in edges:
        tables.edges.add_row(0.0, L, ids[p], ids[c])
    pos = 0
    for (p, c), m in zip(edges, muts):
        for _ in range(int(m)):
            s = tables.sites.add_row(position=float(pos), ancestral_state="0")
            tables.mutations.add_row(site=s, node=ids[c], derived_state="1")
            pos += 1
    root = ids[n - 1]          # post-order numbering: the root is the last internal node
    for _ in range(int(root_muts)):
        s = tables.sites.add_row(position=float(pos), ancestral_state="0")
        tables.mutations.add_row(site=s, node=root, derived_state="1")
        pos += 1
    for _ in range(int(stacked)):
        s = tables.sites.add_row(position=float(pos), ancestral_state="0")
        tables.mutations.add_row(site=s, node=root, derived_state="1")
        tables.mutations.add_row(site=s, node=ids[edges[0][1]], derived_state="2")
        pos += 1
    tables.sort()
    tables.build_index()
    tables.compute_mutation_parents()
    return tables.tree_sequence()


# ----------------------------------------------------------------------------- mutation counts per edge

def mut_edges_independent(ts):
    """Number of mutations on each edge, counted from the trees (not from mutation.edge): a mutation lies on
    the edge (parent(node), node) of the tree at its site; a mutation above a root lies on NO edge."""
    import tskit
    counts = np.zeros(ts.num_edges, dtype=np.int64)
    el, er, ep, ec = ts.edges_left, ts.edges_right, ts.edges_parent, ts.edges_child
    for tree in ts.trees():
        for site in tree.sites():
            x = site.position
            for m in site.mutations:
                par = tree.parent(m.node)
                if par == tskit.NULL:
                    continue
                hit = np.where((ec == m.node) & (ep == par) & (el <= x) & (x < er))[0]
                assert hit.size == 1, (m.node, par, x)
                counts[hit[0]] += 1
    return counts


def encode_mutedges(cid, ts):
    from fractions import Fraction as Fr
    def q(x):
        f = Fr(float(x))
        return f"{f.numerator}/{f.denominator}"
    lines = [f"case {cid}", "op mutedges", f"nedges {ts.num_edges}",
             "sedges " + " ".join(f"{e.id} {q(e.left)} {q(e.right)} {e.parent} {e.child}" for e in ts.edges()),
             "muts " + " ".join(f"{m.node} {q(ts.site(m.site).position)}" for m in ts.mutations()), "end"]
    return "\n".join(lines) + "\n"


def mutedges_text(tss):
    return "".join(encode_mutedges(EXTRA_BASE + i, ts) for i, ts in enumerate(tss))


def mutedges_correspondence(tss, lines_by_id=None):
    """For every tree sequence: Likelihoods.get_mut_edges (implementation) vs the Lean model `mutEdges`
    (which recomputes mutation.edge from the edge table) vs the independent count from the trees.
    Returns list of (index, impl, model, independent) for every disagreement."""
    from tsdate.discrete import Likelihoods
    if not tss:
        return []
    if lines_by_id is None:
        lines_by_id = {}
        run_model([], mutedges_text(tss), lines_by_id)
    model = {}
    for k, ln in lines_by_id.items():
        parts = ln.split()
        model[k - EXTRA_BASE] = None if parts[1:] == ["bad-op"] else [int(x) for x in parts[1:]]
    bad = []
    for i, ts in enumerate(tss):
        impl = [int(x) for x in Likelihoods.get_mut_edges(ts)]
        ind = [int(x) for x in mut_edges_independent(ts)]
        if model.get(i) != impl or ind != impl:
            bad.append((i, impl, model.get(i), ind))
    return bad


# ----------------------------------------------------------------------------- priors

def make_priors(ts, timepoints, rows):
    """A NodeTimeValues prior with the given timepoints and rows[u] (array of len G) for each
    non-sample node u."""
    from tsdate.node_time_class import NodeTimeValues
    nonfixed = np.array([u for u in range(ts.num_nodes) if not ts.node(u).is_sample()], dtype=np.int32)
    nonfixed = nonfixed[np.argsort(ts.nodes_time[nonfixed], kind="stable")]
    pr = NodeTimeValues(ts.num_nodes, nonfixed, np.array(timepoints, dtype=float))
    for u in nonfixed:
        pr[u] = np.asarray(rows[int(u)], dtype=float)
    return pr


def clone_priors(pr):
    from tsdate.node_time_class import NodeTimeValues
    new = NodeTimeValues(pr.num_nodes, pr.nonfixed_nodes.copy(), np.array(pr.timepoints, dtype=float))
    new.grid_data = pr.grid_data.copy()
    new.fixed_data = pr.fixed_data.copy()
    new.probability_space = pr.probability_space
    return new


def random_prior_rows(rng, ts, G, kind):
    rows = {}
    for u in range(ts.num_nodes):
        if ts.node(u).is_sample():
            continue
        if kind == "flat":
            r = np.ones(G)
        elif kind == "rand":
            r = rng.uniform(0.05, 1.0, size=G)
        elif kind == "zero0":          # like tsdate's own grids: no mass at the first timepoint
            r = rng.uniform(0.05, 1.0, size=G)
            r[0] = 0.0
        elif kind == "first":          # all mass on the first timepoint (every node can sit at index 0)
            r = np.zeros(G)
            r[0] = 1.0
        elif kind == "sparse":         # some interior zeros (exercises 0/0 := 0 in the outside pass)
            r = rng.uniform(0.05, 1.0, size=G)
            r[rng.random(G) < 0.3] = 0.0
            r[-1] = max(r[-1], 0.5)    # the oldest slice is always possible -> no all-zero rows
        else:
            raise ValueError(kind)
        rows[u] = r
    return rows


# ----------------------------------------------------------------------------- implementation

class ImplError(Exception):
    pass


def run_impl(ts, priors, mu, eps, space, std_in=True, cache=False, std_out=False, ignore=False):
    """Run the real inside/outside passes.  `priors` is consumed (converted in place by tsdate)."""
    from tsdate import discrete
    cls = discrete.Likelihoods if space == LIN else discrete.LogLikelihoods
    fixed = set(int(s) for s in ts.samples())
    lik = cls(ts, priors.timepoints, mu, eps=eps, fixed_node_set=fixed)
    lik.precalculate_mutation_likelihoods()
    bp = discrete.BeliefPropagation(priors, lik)
    with np.errstate(all="ignore"):
        marg = bp.inside_pass(standardize=std_in, cache_inside=cache)
        bp.outside_pass(standardize=std_out, ignore_oldest_root=ignore)
    G = lik.grid_size
    tables = {}
    for e in ts.edges():
        if e.child in fixed:
            tables[e.id] = np.array(lik.get_mut_lik_fixed_node(e), dtype=float)
        else:
            tables[e.id] = np.array(lik.get_mut_lik_lower_tri(e), dtype=float)
    frac = np.array([e.span / bp.spans[e.child] for e in ts.edges()])
    roots = [(int(r), float(s / bp.spans[r])) for r, s in bp.root_spans.items()]
    order = [(int(e.id), int(e.parent), int(e.child)) for e in bp.edges_by_child_desc(grouped=False)]
    nonfixed = sorted(int(u) for u in priors.nonfixed_nodes)
    # post-processing of core.InsideOutsideMethod.run on a copy of the posterior grid
    from tsdate.core import DiscreteTimeMethod
    pg = bp.posterior_grid.clone_with_new_data(grid_data=bp.posterior_grid.grid_data.copy(), fixed_data=np.nan)
    with np.errstate(all="ignore"):
        pg.standardize()
        pg.force_probability_space(LIN)
        pg.to_probabilities()
        mn, va = DiscreteTimeMethod.mean_var(ts, pg)
    out = dict(
        probs={u: np.array(pg[u], dtype=float) for u in nonfixed},
        mean={u: float(mn[u]) for u in nonfixed}, var={u: float(va[u]) for u in nonfixed},
        G=G, n=ts.num_nodes, fixed=[u in fixed for u in range(ts.num_nodes)],
        edges=[(int(e.id), int(e.parent), int(e.child)) for e in ts.edges()], order=order,
        frac=frac, lik=tables, prior={u: np.array(bp.priors[u], dtype=float) for u in nonfixed},
        roots=roots, nonfixed=nonfixed, marg=float(marg),
        denom={u: float(bp.denominator[u]) for u in nonfixed},
        inside={u: np.array(bp.inside[u], dtype=float) for u in nonfixed},
        outside={u: np.array(bp.outside[u], dtype=float) for u in nonfixed},
        posterior={u: np.array(bp.posterior_grid[u], dtype=float) for u in nonfixed},
        space=space, opts=(bool(std_in), bool(std_out), bool(ignore)), timepoints=np.array(lik.timepoints),
    )
    return out


# ----------------------------------------------------------------------------- model

def encode(cid, r, carrier):
    """One driver block from the arrays captured by run_impl (the model gets the implementation's own
    likelihood tables, prior rows in the pass's probability space, span fractions and edge orders)."""
    enc = f2h if carrier == "float" else f2q
    lines = [f"case {cid}", f"carrier {carrier}", f"space {'lin' if r['space'] == LIN else 'log'}",
             f"G {r['G']}", f"nodes {r['n']}",
             "fixed " + " ".join("1" if b else "0" for b in r["fixed"]),
             "edges " + " ".join(f"{i} {p} {c}" for i, p, c in r["edges"]),
             "order " + " ".join(f"{i} {p} {c}" for i, p, c in r["order"]),
             "frac " + " ".join(enc(x) for x in r["frac"])]
    for eid, tab in sorted(r["lik"].items()):
        lines.append(f"lik {eid} " + " ".join(enc(x) for x in tab))
    for u, row in sorted(r["prior"].items()):
        lines.append(f"prior {u} " + " ".join(enc(x) for x in row))
    lines.append("roots " + " ".join(f"{u} {enc(x)}" for u, x in r["roots"]))
    lines.append("opts " + " ".join("1" if b else "0" for b in r["opts"]))
    lines.append("times " + " ".join(enc(x) for x in r["timepoints"]))
    if carrier == "rat" and r.get("want_brute"):
        lines.append("brute 1")
    lines.append("end")
    return "\n".join(lines) + "\n"


def decode(line, r, carrier):
    parts = line.split()
    if parts[1:] == ["bad-op"]:
        return None
    dec = h2f if carrier == "float" else q2frac
    brute = None
    if "|" in parts:
        k0 = parts.index("|")
        bvals = [dec(x) for x in parts[k0 + 1:]]
        parts = parts[:k0]
        G0 = r["G"]
        brute = dict(Z=bvals[0], marg={u: bvals[1 + i * G0:1 + (i + 1) * G0] for i, u in enumerate(r["nonfixed"])})
    vals = [dec(x) for x in parts[1:]]
    G = r["G"]
    out = dict(marg=vals[0], denom={}, inside={}, outside={}, probs={}, mean={}, var={})
    k = 1
    for u in r["nonfixed"]:
        out["denom"][u] = vals[k]
        out["inside"][u] = vals[k + 1:k + 1 + G]
        out["outside"][u] = vals[k + 1 + G:k + 1 + 2 * G]
        out["probs"][u] = vals[k + 1 + 2 * G:k + 1 + 3 * G]
        out["mean"][u] = vals[k + 1 + 3 * G]
        out["var"][u] = vals[k + 2 + 3 * G]
        k += 3 + 3 * G
    if k != len(vals):
        raise common.LeanError(f"driver reply has {len(vals)} values, expected {k}")
    out["brute"] = brute
    return out


EXTRA_BASE = 10 ** 6      # ids of extra blocks (other driver operations) sharing one driver invocation


def run_model(cases, extra_text="", extra_out=None):
    """cases: list of (impl_result, carrier).  Returns list of decoded outputs (None = bad-op).
    `extra_text`: further blocks (ids >= EXTRA_BASE) run in the same driver process; their raw reply lines are
    stored in `extra_out[id]`."""
    if not cases and not extra_text:
        return []
    text = "".join(encode(i, r, carrier) for i, (r, carrier) in enumerate(cases)) + extra_text
    lines = common.lean_driver("Discrete", text)
    by_id = {}
    for ln in lines:
        if ln.strip():
            k = int(ln.split()[0])
            if k >= EXTRA_BASE:
                if extra_out is not None:
                    extra_out[k] = ln
            else:
                by_id[k] = ln
    return [decode(by_id[i], r, carrier) if i in by_id else None for i, (r, carrier) in enumerate(cases)]


def close(a, b, rtol=1e-9, atol=0.0):
    """a: float from the implementation, b: float or Fraction from the model"""
    a = float(a)
    bf = float(b)
    if a != a or bf != bf:
        return (a != a) and (bf != bf)
    if math.isinf(a) or math.isinf(bf):
        return a == bf
    return abs(a - bf) <= atol + rtol * max(abs(a), abs(bf))


def compare(r, m, rtol=1e-9):
    """Returns list of (field, node, index, impl, model) mismatches.  In log space values are compared
    with an absolute tolerance (they are logarithms)."""
    bad = []
    log = r["space"] == LOG
    kw = dict(rtol=0.0, atol=rtol) if log else dict(rtol=rtol, atol=1e-300)

    def chk(name, u, i, a, b):
        if not close(a, b, **kw):
            bad.append((name, u, i, float(a), float(b)))
    chk("marginal", -1, 0, r["marg"], m["marg"])
    for u in r["nonfixed"]:
        chk("denominator", u, 0, r["denom"][u], m["denom"][u])
        for i in range(r["G"]):
            chk("inside", u, i, r["inside"][u][i], m["inside"][u][i])
            chk("outside", u, i, r["outside"][u][i], m["outside"][u][i])
    # post-processing (always linear-space numbers)
    for u in r["nonfixed"]:
        if isinstance(m["mean"][u], Fraction) and not np.all(np.isfinite(r["probs"][u])):
            continue    # exact carrier: Lean's x/0 = 0 where the implementation has nan (0/0); Float carrier compares nan
        for i in range(r["G"]):
            if not close(r["probs"][u][i], m["probs"][u][i], rtol=rtol, atol=1e-300):
                bad.append(("posterior_probability", u, i, float(r["probs"][u][i]), float(m["probs"][u][i])))
        tscale = max(1.0, float(np.max(np.abs(r["timepoints"]))))
        if not close(r["mean"][u], m["mean"][u], rtol=rtol, atol=rtol * tscale):
            bad.append(("posterior_mean", u, 0, float(r["mean"][u]), float(m["mean"][u])))
        if not close(r["var"][u], m["var"][u], rtol=1e-7, atol=1e-7 * tscale * tscale):
            bad.append(("posterior_variance", u, 0, float(r["var"][u]), float(m["var"][u])))
    return bad


def bit_equal(r, m):
    """fraction of (inside, outside, marginal) values that agree bit-for-bit (Float carrier)"""
    tot = same = 0
    for u in r["nonfixed"]:
        for name in ("inside", "outside"):
            for a, b in zip(r[name][u], m[name][u]):
                tot += 1
                same += f2h(a) == f2h(b)
    tot += 1
    same += f2h(r["marg"]) == f2h(m["marg"])
    return same, tot


# ----------------------------------------------------------------------------- brute force (the spec)

def poisson_pmf(k, lam):
    if lam == 0:
        return 1.0 if k == 0 else 0.0
    return math.exp(k * math.log(lam) - lam - math.lgamma(k + 1))


def brute_force(ts, prior_rows, timepoints, mu, eps):
    """Exact marginals of the discretised model on a single tree.

    weight(x) = prod_u prior_u[x_u] * prod_edges Poisson(m_e; (t[x_p] - t[x_c] + eps) * mu * span_e) * [x_c <= x_p]
    with samples fixed at grid index 0 (time 0).  Returns (Z, {u: marginal weights over the grid}).
    Independent of tsdate's tables and of the Lean model."""
    assert ts.num_trees == 1
    G = len(timepoints)
    fixed = set(int(s) for s in ts.samples())
    nonfixed = [u for u in range(ts.num_nodes) if u not in fixed]
    muts = mut_edges_independent(ts)      # counted from the trees; root mutations lie on no edge
    edges = [(int(e.parent), int(e.child), int(muts[e.id]), float(e.span)) for e in ts.edges()]
    # per-edge table L[e][a][b] for parent index a, child index b
    tabs = []
    for (p, c, m, span) in edges:
        t = np.zeros((G, G))
        for a in range(G):
            for b in range(a + 1):
                t[a, b] = poisson_pmf(m, (timepoints[a] - timepoints[b] + eps) * mu * span)
        tabs.append(t)
    Z = 0.0
    marg = {u: np.zeros(G) for u in nonfixed}
    for assign in itertools.product(range(G), repeat=len(nonfixed)):
        x = dict(zip(nonfixed, assign))
        w = 1.0
        for u in nonfixed:
            w *= prior_rows[u][x[u]]
            if w == 0.0:
                break
        if w == 0.0:
            continue
        for (p, c, m, span), t in zip(edges, tabs):
            xp = x[p]
            xc = 0 if c in fixed else x[c]
            if xc > xp:
                w = 0.0
                break
            w *= t[xp, xc]
        if w == 0.0:
            continue
        Z += w
        for u in nonfixed:
            marg[u][x[u]] += w
    return Z, marg


def normalise(v):
    v = np.asarray(v, dtype=float)
    s = v.sum()
    return v / s if s > 0 else v * np.nan
