"""Library-wide audit: forbidden tokens in any project Lean file (comments stripped)."""
import sys

from . import common


def main():
    mods = []
    for p in sorted((common.LEAN_DIR / "TsdateVerif").rglob("*.lean")):
        mods.append(str(p.relative_to(common.LEAN_DIR)).replace("/", ".")[:-5])
    hits = common.forbidden_tokens(mods)
    for h in hits:
        print("FORBIDDEN:", h)
    print(f"self-audit: {len(mods)} modules, {len(hits)} forbidden token(s)")
    return 1 if hits else 0


if __name__ == "__main__":
    sys.exit(main())
