"""
Shared code of the Preprocess cluster for C29 (and reused by C28): generators of tree sequences with
disjoint nodes, stage-B correspondence of the Lean models `Split.splitDisjoint` /
`Split.relabelMutations` (Driver/Split.lean) with the numba kernels `_split_disjoint_nodes` /
`_relabel_mutations_node`, and the stage-C oracle for `split_disjoint_nodes`.
"""

import contextlib
import json

import numpy as np

from . import common, gen
from .common import Violation, f2q


# ----------------------------------------------------------------------------- generators

def _tskit():
    import tskit
    return tskit


def ts_b64(ts):
    """Self-contained copy of all tables (incl. metadata and schemas) for replay files."""
    import base64
    import pickle
    return base64.b64encode(pickle.dumps(ts.dump_tables())).decode()


def ts_from_b64(s):
    import base64
    import pickle
    return pickle.loads(base64.b64decode(s)).tree_sequence()


def cut_intervals(ts, rng, k, narrow=True):
    """Delete k random intervals (integer ends), no simplification -> nodes with disjoint pieces."""
    L = ts.sequence_length
    if L < 6:
        return ts, []
    ivs = []
    for _ in range(k):
        a = float(np.floor(rng.uniform(0, L - 1)))
        w = float(np.ceil(rng.uniform(0.5, max(1.0, L / (12 if narrow else 4)))))
        b = float(min(L, a + w))
        if b > a:
            ivs.append((a, b))
    ivs.sort()
    merged = []
    for a, b in ivs:
        if merged and a <= merged[-1][1]:
            merged[-1] = (merged[-1][0], max(b, merged[-1][1]))
        else:
            merged.append((a, b))
    if merged and merged[0][0] <= 0 and merged[0][1] >= L:
        return ts, []
    return ts.delete_intervals(merged, simplify=False), merged


def cut_flanks(ts, rng):
    L = ts.sequence_length
    if L < 8:
        return ts, []
    ivs = []
    if rng.random() < 0.7:
        ivs.append((0.0, float(np.ceil(rng.uniform(0.5, L / 4)))))
    if rng.random() < 0.7 or not ivs:
        ivs.append((float(np.floor(rng.uniform(3 * L / 4, L - 0.5))), float(L)))
    return ts.delete_intervals(ivs, simplify=False), ivs


def add_mutations_anywhere(ts, rng, k, sample_bias=0.5):
    """k new sites at unused positions (also inside gaps and flanks) with one mutation each on a random node
    (isolated samples, nodes absent from the local tree and roots included); sometimes a second, nested one."""
    tskit = _tskit()
    tables = ts.dump_tables()
    used = set(float(x) for x in tables.sites.position)
    L = ts.sequence_length
    samples = ts.samples()
    added = 0
    for _ in range(6 * k):
        if added >= k:
            break
        pos = float(np.floor(rng.uniform(0, L)))
        if rng.random() < 0.3:                    # exactly at an edge breakpoint
            bps = np.unique(np.concatenate([ts.edges_left, ts.edges_right]))
            bps = bps[bps < L]
            if bps.size:
                pos = float(rng.choice(bps))
        if pos in used or pos >= L:
            continue
        if rng.random() < sample_bias and samples.size:
            node = int(rng.choice(samples))
        else:
            node = int(rng.integers(0, ts.num_nodes))
        s = tables.sites.add_row(position=pos, ancestral_state="A")
        tables.mutations.add_row(site=s, node=node, derived_state="T", time=tskit.UNKNOWN_TIME)
        if rng.random() < 0.25:
            tree = ts.at(pos)
            below = [u for u in tree.nodes(node)][1:] if tree.parent(node) != tskit.NULL or tree.num_children(node) else []
            if below:
                tables.mutations.add_row(site=s, node=int(rng.choice(below)), derived_state="G", time=tskit.UNKNOWN_TIME)
        used.add(pos)
        added += 1
    mt = tables.mutations.time
    tables.mutations.time = np.full_like(mt, tskit.UNKNOWN_TIME)
    tables.sort()
    tables.build_index()
    tables.compute_mutation_parents()
    return tables.tree_sequence(), added


def rescale_coords(ts, factor):
    """Monotone map of all genome coordinates x -> x * factor (non-integer coordinates)."""
    tables = ts.dump_tables()
    left, right = tables.edges.left * factor, tables.edges.right * factor
    pos = tables.sites.position * factor
    if np.any(np.diff(pos) <= 0) or np.any(left >= right):
        return ts
    t2 = _tskit().TableCollection(sequence_length=float(ts.sequence_length * factor))
    d = tables.asdict()
    d["sequence_length"] = float(ts.sequence_length * factor)
    d["edges"]["left"], d["edges"]["right"] = left, right
    d["sites"]["position"] = pos
    if "migrations" in d and len(d["migrations"]["left"]):
        return ts
    t2 = _tskit().TableCollection.fromdict(d)
    t2.sort()
    t2.build_index()
    t2.compute_mutation_parents()
    return t2.tree_sequence()


def struct_metadata(ts):
    """Node metadata with a struct schema that cannot hold `unsplit_node_id` ('where possible')."""
    tskit = _tskit()
    tables = ts.dump_tables()
    schema = tskit.MetadataSchema({"codec": "struct", "type": "object",
                                   "properties": {"k": {"type": "integer", "binaryFormat": "i"}}})
    tables.nodes.metadata_schema = schema
    tables.nodes.packset_metadata([schema.validate_and_encode_row({"k": i}) for i in range(ts.num_nodes)])
    return tables.tree_sequence()


MD_CLASSES = ["none", "raw-bytes", "json-empty", "json-some", "json-all", "json-restrictive", "json-idmax", "struct",
              "struct-with-field"]
MD_KEY = "unsplit_node_id"


def set_node_metadata_class(ts, rng, cls):
    """Node-table metadata: schema class x content class (what decides whether `unsplit_node_id` can be stored)."""
    tskit = _tskit()
    tables = ts.dump_tables()
    n = ts.num_nodes
    if cls == "none":                      # no schema, every row empty (msprime default)
        tables.nodes.metadata_schema = tskit.MetadataSchema(None)
        tables.nodes.packset_metadata([b""] * n)
    elif cls == "raw-bytes":               # no schema, some raw bytes
        tables.nodes.metadata_schema = tskit.MetadataSchema(None)
        tables.nodes.packset_metadata([b"x%d" % i if rng.random() < 0.6 else b"" for i in range(n)])
    elif cls == "json-empty":              # JSON schema set, nothing packed: the key CAN be stored, all rows empty
        tables.nodes.metadata_schema = tskit.MetadataSchema.permissive_json()
        tables.nodes.packset_metadata([b""] * n)
    elif cls in ("json-some", "json-all"):
        schema = tskit.MetadataSchema.permissive_json()
        tables.nodes.metadata_schema = schema
        p = 0.5 if cls == "json-some" else 1.0
        tables.nodes.packset_metadata([schema.validate_and_encode_row({"name": f"n{i}", "k": int(rng.integers(0, 9))})
                                       if rng.random() < p else b"" for i in range(n)])
    elif cls == "json-restrictive":        # additional properties forbidden: impossible for every node
        schema = tskit.MetadataSchema({"codec": "json", "type": "object", "properties": {"name": {"type": "string"}},
                                       "additionalProperties": False})
        tables.nodes.metadata_schema = schema
        tables.nodes.packset_metadata([schema.validate_and_encode_row({"name": f"n{i}"}) for i in range(n)])
    elif cls == "json-idmax":              # the key has a maximum / minimum: possible for some node ids only
        nonsample = [u for u in range(n) if not ts.node(u).is_sample()] or [0]
        kmax = int(rng.choice(nonsample))
        schema = tskit.MetadataSchema({"codec": "json", "type": "object",
                                       "properties": {MD_KEY: {"type": "integer",
                                                               str(rng.choice(["maximum", "minimum"])): kmax}}})
        tables.nodes.metadata_schema = schema
        tables.nodes.packset_metadata([schema.validate_and_encode_row({"a": i}) if rng.random() < 0.6 else b"" for i in range(n)])
    elif cls == "struct":                  # struct without the field: impossible
        schema = tskit.MetadataSchema({"codec": "struct", "type": "object",
                                       "properties": {"k": {"type": "integer", "binaryFormat": "i"}}})
        tables.nodes.metadata_schema = schema
        tables.nodes.packset_metadata([schema.validate_and_encode_row({"k": i}) for i in range(n)])
    elif cls == "struct-with-field":       # struct that has the field: possible
        schema = tskit.MetadataSchema({"codec": "struct", "type": "object",
                                       "properties": {"k": {"type": "integer", "binaryFormat": "i"},
                                                      MD_KEY: {"type": "integer", "binaryFormat": "i", "default": -1}}})
        tables.nodes.metadata_schema = schema
        tables.nodes.packset_metadata([schema.validate_and_encode_row({"k": i}) for i in range(n)])
    else:
        raise ValueError(cls)
    return tables.tree_sequence()


def metadata_info(ts):
    """Per node: the raw row, and what the codec answers when the row is decoded, given the key and re-encoded
    (None = TypeError / MetadataValidationError, the two exceptions the code treats as 'cannot be stored')."""
    tskit = _tskit()
    tb = ts.tables.nodes
    rows = [bytes(r) for r in tskit.unpack_bytes(tb.metadata, tb.metadata_offset)]
    schema = tb.metadata_schema
    enc = []
    for u in range(ts.num_nodes):
        try:
            md = ts.node(u).metadata
            md[MD_KEY] = int(u)
            enc.append(bytes(schema.validate_and_encode_row(md)))
        except (TypeError, tskit.MetadataValidationError):
            enc.append(None)
    return dict(rows=rows, enc=enc)


def md_tok(b):
    return "-" if len(b) == 0 else bytes(b).hex()


def out_md_tokens(out):
    tskit = _tskit()
    tb = out.tables.nodes
    return [md_tok(bytes(r)) for r in tskit.unpack_bytes(tb.metadata, tb.metadata_offset)]


@contextlib.contextmanager
def capture_warning():
    """Records whether tsdate.util logged its "Could not set 'unsplit_node_id'" warning."""
    import logging
    lg = logging.getLogger("tsdate.util")
    seen = []

    class H(logging.Handler):
        def emit(self, record):
            seen.append(record.getMessage())
    h = H(level=logging.WARNING)
    old_level, old_prop = lg.level, lg.propagate
    lg.addHandler(h)
    lg.setLevel(logging.WARNING)
    lg.propagate = False
    try:
        yield seen
    finally:
        lg.removeHandler(h)
        lg.setLevel(old_level)
        lg.propagate = old_prop


def handmade(rng):
    """Small explicit table collections that hit the corner cases directly."""
    tskit = _tskit()
    which = int(rng.integers(0, 5))
    L = 20.0
    t = tskit.TableCollection(sequence_length=L)
    for _ in range(4):
        t.nodes.add_row(flags=tskit.NODE_IS_SAMPLE, time=0)
    if which == 0:      # one internal node in three pieces, adjacent edges inside a piece
        t.nodes.add_row(time=1.0)   # 4
        t.nodes.add_row(time=2.0)   # 5
        for (l, r) in [(0, 3), (3, 5), (8, 11), (15, 20)]:
            t.edges.add_row(l, r, 4, 0)
            t.edges.add_row(l, r, 4, 1)
        for (l, r) in [(0, 5), (8, 20)]:
            t.edges.add_row(l, r, 5, 2)
        t.edges.add_row(0, 5, 5, 4)
        t.edges.add_row(9, 10, 5, 4)
    elif which == 1:    # node is a child on the left, a parent on the right (disjoint), isolated between
        t.nodes.add_row(time=1.0)   # 4
        t.nodes.add_row(time=2.0)   # 5
        t.edges.add_row(0, 4, 5, 4)
        t.edges.add_row(0, 4, 5, 0)
        t.edges.add_row(0, 4, 4, 1)
        t.edges.add_row(0, 4, 4, 2)
        t.edges.add_row(10, 16, 4, 0)
        t.edges.add_row(10, 16, 4, 3)
    elif which == 2:    # no edges at all
        t.nodes.add_row(time=1.0)
    elif which == 3:    # edges only in the middle; flanks empty
        t.nodes.add_row(time=1.0)
        t.nodes.add_row(time=1.5)
        for c in (0, 1):
            t.edges.add_row(5, 8, 4, c)
            t.edges.add_row(12, 14, 4, c)
            t.edges.add_row(8, 12, 5, c)
        t.edges.add_row(5, 8, 5, 4)
    else:               # overlapping child/parent spans of one node (contiguous through the union only)
        t.nodes.add_row(time=1.0)
        t.nodes.add_row(time=2.0)
        t.edges.add_row(0, 6, 4, 0)
        t.edges.add_row(0, 6, 4, 1)
        t.edges.add_row(4, 12, 5, 4)
        t.edges.add_row(4, 12, 5, 2)
        t.edges.add_row(14, 20, 4, 1)
        t.edges.add_row(14, 20, 4, 3)
    k = int(rng.integers(2, 8))
    pos = sorted(set(float(x) for x in rng.integers(0, int(L), size=k)))
    for x in pos:
        s = t.sites.add_row(position=x, ancestral_state="A")
        t.mutations.add_row(site=s, node=int(rng.integers(0, t.nodes.num_rows)), derived_state="T")
    t.sort()
    t.build_index()
    t.compute_mutation_parents()
    return t.tree_sequence(), f"handmade{which}"


def gen_split_ts(rng):
    """A valid tree sequence whose nodes have gaps, plus the list of mutilations that fired."""
    r = rng.random()
    if r < 0.12:
        ts, tag = handmade(rng)
        cls = str(rng.choice(MD_CLASSES))
        return set_node_metadata_class(ts, rng, cls), dict(fired=[tag, "md:" + cls])
    ts, info = gen.gen_ts(rng, historical=0.3, polytomy=0.2, internal_samples=0.15, rootmuts=0.15,
                          metadata=0.0, permute=0.25, L=float(rng.choice([30, 100, 1000])))
    fired = list(info["fired"])
    if rng.random() < 0.75:
        ts, ivs = cut_intervals(ts, rng, int(rng.integers(1, 7)), narrow=rng.random() < 0.7)
        if ivs:
            fired.append(f"gaps{len(ivs)}")
    if rng.random() < 0.35:
        ts, ivs = cut_flanks(ts, rng)
        if ivs:
            fired.append("flanks")
    if rng.random() < 0.2:
        # keep only some samples but keep unary nodes -> long unary chains with gaps
        try:
            ss = ts.samples()
            keep = rng.choice(ss, size=max(2, ss.size // 2), replace=False)
            ts = ts.simplify(np.sort(keep), keep_unary=True, filter_sites=False)
            fired.append("subset_keep_unary")
        except Exception:  # noqa: BLE001
            pass
    if rng.random() < 0.7:
        ts, k = add_mutations_anywhere(ts, rng, int(rng.integers(1, 6)))
        if k:
            fired.append("muts_anywhere")
    cls = str(rng.choice(MD_CLASSES, p=[0.14, 0.06, 0.2, 0.14, 0.14, 0.08, 0.1, 0.08, 0.06]))
    ts = set_node_metadata_class(ts, rng, cls)
    fired.append("md:" + cls)
    if rng.random() < 0.2:
        f = float(rng.choice([0.37, 1.0 / 3.0, 2.5, 1e-3]))
        ts2 = rescale_coords(ts, f)
        if ts2 is not ts:
            ts = ts2
            fired.append("noninteger_coords")
    return ts, dict(fired=fired)


def synth_case(rng):
    """Kernel-level input: arbitrary intervals on a small grid (ties, adjacency, nesting), any node roles."""
    N = int(rng.integers(2, 9))
    E = int(rng.integers(0, 15)) if rng.random() < 0.95 else 0
    grid = int(rng.choice([6, 12, 30]))
    scale = float(rng.choice([1.0, 0.5, 1.0 / 3.0]))
    el = np.zeros(E)
    er = np.zeros(E)
    ep = np.zeros(E, dtype=np.int32)
    ec = np.zeros(E, dtype=np.int32)
    for e in range(E):
        a, b = sorted(rng.choice(grid + 1, size=2, replace=False))
        el[e], er[e] = a * scale, b * scale
        p, c = rng.choice(N, size=2, replace=False)
        ep[e], ec[e] = p, c
    excl = rng.random(N) < float(rng.choice([0.0, 0.3, 0.6]))
    M = int(rng.integers(0, 8))
    mpos = np.sort(rng.choice(grid + 3, size=M, replace=True) * scale)
    mnode = rng.integers(0, N, size=M).astype(np.int32)
    tie = rng.random(E)
    ins = np.lexsort((tie, el)).astype(np.int32)
    rem = np.lexsort((tie, er)).astype(np.int32)
    return dict(kind="synth", N=N, excl=excl, el=el, er=er, ep=ep, ec=ec, mpos=mpos, mnode=mnode, ins=ins, rem=rem)


# ----------------------------------------------------------------------------- kernels and capture

class KernelOutputOutOfRange(Exception):
    """Raised by the harness between the two numba kernels (which do no bounds checking) when the first one returned
    node ids outside the new node table: going on would read/write out of bounds and can crash the interpreter."""


def check_split_output(n_in, nep, nec, order, split):
    order = np.asarray(order)
    n_out = order.size
    for name, a in (("edges_parent", nep), ("edges_child", nec)):
        a = np.asarray(a)
        if a.size and (a.min() < 0 or a.max() >= n_out):
            raise KernelOutputOutOfRange(f"_split_disjoint_nodes returned {name} with id {int(a.max())} for a node table of {n_out} rows")
    if order.size and (order.min() < 0 or order.max() >= n_in):
        raise KernelOutputOutOfRange(f"_split_disjoint_nodes returned nodes_order entry {int(order.max())} for {n_in} input nodes")


@contextlib.contextmanager
def capture_kernels():
    """Record arguments and results of the two numba kernels while `split_disjoint_nodes` runs."""
    import tsdate.util as util
    calls = dict(split=[], relabel=[])
    o1, o2 = util._split_disjoint_nodes, util._relabel_mutations_node

    def w1(ep, ec, el, er, excl):
        out = o1(ep, ec, el, er, excl)
        calls["split"].append((tuple(np.array(a, copy=True) for a in (ep, ec, el, er, excl)),
                               tuple(np.array(a, copy=True) for a in out)))
        check_split_output(len(excl), *out)
        return out

    def w2(*args):
        out = o2(*args)
        calls["relabel"].append((tuple(np.array(a, copy=True) for a in args), np.array(out, copy=True)))
        return out

    util._split_disjoint_nodes, util._relabel_mutations_node = w1, w2
    try:
        yield calls
    finally:
        util._split_disjoint_nodes, util._relabel_mutations_node = o1, o2


def case_from_capture(calls):
    (ep, ec, el, er, excl), (nep, nec, order, split) = calls["split"][-1]
    (mnode, mpos, order2, nep2, nec2, el2, er2, ins, rem), mout = calls["relabel"][-1]
    assert np.array_equal(order, order2) and np.array_equal(nep, nep2) and np.array_equal(nec, nec2)
    c = dict(kind="ts", N=int(excl.size), excl=excl, el=el, er=er, ep=ep, ec=ec, mpos=mpos, mnode=mnode, ins=ins, rem=rem)
    impl = dict(parent=nep, child=nec, order=order, split=split, mnode=mout)
    return c, impl


def run_kernels(c):
    """Call the two kernels exactly as `split_disjoint_nodes` does."""
    from tsdate.util import _relabel_mutations_node, _split_disjoint_nodes
    i32 = lambda a: np.ascontiguousarray(a, dtype=np.int32)  # noqa: E731
    f64 = lambda a: np.ascontiguousarray(a, dtype=np.float64)  # noqa: E731
    nep, nec, order, split = _split_disjoint_nodes(i32(c["ep"]), i32(c["ec"]), f64(c["el"]), f64(c["er"]),
                                                   np.ascontiguousarray(c["excl"], dtype=bool))
    check_split_output(len(c["excl"]), nep, nec, order, split)
    mout = _relabel_mutations_node(i32(c["mnode"]), f64(c["mpos"]), i32(order), i32(nep), i32(nec),
                                   f64(c["el"]), f64(c["er"]), i32(c["ins"]), i32(c["rem"]))
    return dict(parent=np.array(nep), child=np.array(nec), order=np.array(order), split=np.array(split), mnode=np.array(mout))


def encode(i, c):
    ed = []
    for l, r, p, ch in zip(c["el"], c["er"], c["ep"], c["ec"]):
        ed += [f2q(l), f2q(r), str(int(p)), str(int(ch))]
    mu = []
    for x, u in zip(c["mpos"], c["mnode"]):
        mu += [f2q(x), str(int(u))]
    return "\n".join([
        f"case {i}", f"n {c['N']}",
        "excl " + " ".join("1" if b else "0" for b in c["excl"]),
        "edges " + " ".join(ed),
        "ins " + " ".join(str(int(x)) for x in c["ins"]),
        "rem " + " ".join(str(int(x)) for x in c["rem"]),
        "muts " + " ".join(mu)]
        + (["flags " + " ".join(str(int(x)) for x in c["flags"])] if c.get("flags") is not None else [])
        + (["mdrows " + " ".join(md_tok(b) for b in c["md"]["rows"]),
            "mdenc " + " ".join("fail" if b is None else md_tok(b) for b in c["md"]["enc"])] if c.get("md") is not None else [])
        + ["end"]) + "\n"


def case_replay(c):
    return dict(kind="split-kernels", origin=c.get("kind"), N=int(c["N"]), excl=[int(b) for b in c["excl"]],
                edges_left=[float(x).hex() for x in c["el"]], edges_right=[float(x).hex() for x in c["er"]],
                edges_parent=[int(x) for x in c["ep"]], edges_child=[int(x) for x in c["ec"]],
                mutations_position=[float(x).hex() for x in c["mpos"]], mutations_node=[int(x) for x in c["mnode"]],
                insertion=[int(x) for x in c["ins"]], removal=[int(x) for x in c["rem"]],
                flags=None if c.get("flags") is None else [int(x) for x in c["flags"]],
                md=None if c.get("md") is None else dict(rows=[b.hex() for b in c["md"]["rows"]],
                                                         enc=[None if b is None else b.hex() for b in c["md"]["enc"]]))


def case_from_replay(d):
    fh = float.fromhex
    return dict(kind=d.get("origin", "replay"), N=int(d["N"]), excl=np.array(d["excl"], dtype=bool),
                el=np.array([fh(x) for x in d["edges_left"]], dtype=float), er=np.array([fh(x) for x in d["edges_right"]], dtype=float),
                ep=np.array(d["edges_parent"], dtype=np.int32), ec=np.array(d["edges_child"], dtype=np.int32),
                mpos=np.array([fh(x) for x in d["mutations_position"]], dtype=float),
                mnode=np.array(d["mutations_node"], dtype=np.int32),
                ins=np.array(d["insertion"], dtype=np.int32), rem=np.array(d["removal"], dtype=np.int32),
                flags=None if d.get("flags") is None else np.array(d["flags"], dtype=np.int64),
                md=None if d.get("md") is None else dict(rows=[bytes.fromhex(x) for x in d["md"]["rows"]],
                                                         enc=[None if x is None else bytes.fromhex(x) for x in d["md"]["enc"]]))


def run_model(cases):
    text = "".join(encode(i, c) for i, c in enumerate(cases))
    lines = common.lean_driver("Split", text)
    outs = {}
    for ln in lines:
        if ";" not in ln:
            parts = ln.split()
            if parts:
                outs[int(parts[0])] = None
            continue
        f = ln.split(";")
        ints = lambda s: np.array([int(x) for x in s.split()], dtype=np.int64)  # noqa: E731
        outs[int(f[0])] = dict(parent=ints(f[1]), child=ints(f[2]), order=ints(f[3]), split=ints(f[4]), mnode=ints(f[5]),
                               flags=ints(f[6]) if len(f) > 6 else ints(""), md=f[7].split() if len(f) > 7 else [])
    return outs


FIELDS = ("parent", "child", "order", "split", "mnode")


def compare(cases, impls):
    """Exact comparison of every returned array. Returns list of Violation (stage B)."""
    model = run_model(cases)
    fails = []
    for i, (c, o) in enumerate(zip(cases, impls)):
        m = model.get(i)
        if m is None:
            fails.append(Violation("split-model-rejects", f"Lean model answered bad-op on a {c['kind']} case the kernels accepted",
                                   dict(case_replay(c)), stage="B"))
            continue
        diff = [k for k in FIELDS if not np.array_equal(np.asarray(o[k], dtype=np.int64), m[k])]
        if o.get("flags") is not None and not np.array_equal(np.asarray(o["flags"], dtype=np.int64), m["flags"]):
            diff.append("flags")
        if o.get("md") is not None and list(o["md"]) != list(m["md"]):
            diff.append("node metadata rows")
        if diff:
            fails.append(Violation("split-model-differs",
                                   f"numba kernels differ from the Lean model in {diff} ({c['kind']} case, "
                                   f"{c['ep'].size} edges, {c['mnode'].size} mutations)",
                                   dict(case_replay(c), impl={k: np.asarray(o[k]).tolist() for k in FIELDS},
                                        model={k: m[k].tolist() for k in FIELDS}), stage="B"))
    return fails


# ----------------------------------------------------------------------------- hypotheses of the theorems

def hypotheses(c):
    """The decidable hypotheses of Props/C29 evaluated on a case."""
    el, er, ep, ec = c["el"], c["er"], c["ep"], c["ec"]
    N = c["N"]
    h = dict()
    h["edges_valid"] = bool(np.all(el < er) and np.all((ep >= 0) & (ep < N)) and np.all((ec >= 0) & (ec < N)))
    h["ins_sorted_perm"] = bool(np.array_equal(np.sort(c["ins"]), np.arange(el.size)) and np.all(np.diff(el[c["ins"]]) >= 0))
    h["rem_sorted_perm"] = bool(np.array_equal(np.sort(c["rem"]), np.arange(el.size)) and np.all(np.diff(er[c["rem"]]) >= 0))
    h["muts_sorted"] = bool(np.all(np.diff(c["mpos"]) >= 0))
    h["coords_nonneg"] = bool(np.all(el >= 0) and np.all(c["mpos"] >= 0))
    return h


# ----------------------------------------------------------------------------- kernel-level statement (oracle on arrays)

def kernel_oracle(c, o):
    """The statement of C29 on the kernels' arrays: list of (kind, what)."""
    bad = []
    el, er, ep, ec, excl, N = c["el"], c["er"], c["ep"], c["ec"], c["excl"], c["N"]
    P, C, order, split = (np.asarray(o[k], dtype=np.int64) for k in ("parent", "child", "order", "split"))
    E = el.size
    if order.size != N + split.size or not np.array_equal(order[:N], np.arange(N)) or not np.array_equal(order[N:], split):
        bad.append(("nodes-order-malformed", "nodes_order is not arange(N) followed by split_nodes"))
        return bad
    if E and (P.max(initial=-1) >= order.size or C.max(initial=-1) >= order.size or P.min(initial=0) < 0 or C.min(initial=0) < 0):
        bad.append(("edge-node-out-of-range", "relabelled edge endpoint outside the new node table"))
        return bad
    if E and (not np.array_equal(order[P], ep) or not np.array_equal(order[C], ec)):
        bad.append(("edge-maps-to-wrong-node", "a relabelled edge endpoint does not map back to the original endpoint"))
    if np.any(excl[split]):
        bad.append(("sample-split", "an excluded (sample) node was split"))
    # pieces
    touch = {}
    for e in range(E):
        for v in (int(P[e]), int(C[e])):
            touch.setdefault(v, []).append((el[e], er[e]))
    for v, ivs in touch.items():
        ivs.sort()
        if excl[order[v]]:
            if v != order[v]:
                bad.append(("sample-split", "an excluded node's edge got a new id"))
            continue
        run = ivs[0][1]
        for l, r in ivs[1:]:
            if l > run:
                bad.append(("piece-has-gap", f"output node {v} (from {int(order[v])}) has a gap before {l}"))
                break
            run = max(run, r)
    # same node present at one position -> one piece; leftmost keeps id
    byorig = {}
    for v, ivs in touch.items():
        byorig.setdefault(int(order[v]), []).append((min(l for l, _ in ivs), max(r for _, r in ivs), v))
    for n, pcs in byorig.items():
        pcs.sort()
        if pcs[0][2] != n:
            bad.append(("leftmost-piece-renumbered", f"leftmost piece of node {n} has id {pcs[0][2]}"))
        for (l1, r1, _), (l2, r2, _) in zip(pcs[:-1], pcs[1:]):
            if not r1 < l2:
                bad.append(("pieces-not-separated-by-gap", f"two pieces of node {n} overlap or touch at {l2}: only regions separated by a gap may become distinct nodes"))
    unused = set(range(N, order.size)) - set(touch)
    if unused:
        bad.append(("unused-new-node", f"new node(s) {sorted(unused)} carry no edge"))
    # mutations
    mo = np.asarray(o["mnode"], dtype=np.int64)
    if mo.size != c["mnode"].size or (mo.size and (mo.min() < 0 or mo.max() >= order.size)):
        bad.append(("mutation-node-out-of-range", "relabelled mutation node outside the node table"))
        return bad
    if mo.size and not np.array_equal(order[mo], c["mnode"]):
        bad.append(("mutation-maps-to-wrong-node", "a mutation's new node does not map back to its node"))
    for m in range(mo.size):
        x, u = c["mpos"][m], int(c["mnode"][m])
        cover = [e for e in range(E) if el[e] <= x < er[e] and (ep[e] == u or ec[e] == u)]
        if cover:
            e = cover[0]
            v = int(P[e]) if ep[e] == u else int(C[e])
            if int(mo[m]) != v:
                bad.append(("mutation-on-absent-piece", f"mutation at {x} on node {u} moved to {int(mo[m])}, "
                            f"but the piece present there is {v}"))
    return bad


# ----------------------------------------------------------------------------- ts-level oracle

def orig_map(ts_in, out, order):
    n0 = ts_in.num_nodes
    return np.asarray(order, dtype=np.int64) if order is not None else np.arange(out.num_nodes)


def trees_isomorphic(ts_in, out, orig):
    """Per-position comparison of the local trees. Returns None or a description."""
    bps = np.unique(np.concatenate([np.asarray(ts_in.breakpoints(as_array=True)), np.asarray(out.breakpoints(as_array=True))]))
    t1, t2 = ts_in.first(), out.first()
    for x in bps[:-1]:
        t1.seek(float(x))
        t2.seek(float(x))
        a = {(int(p), int(ch)) for ch, p in t1.parent_dict.items()}
        b_raw = [(int(p), int(ch)) for ch, p in t2.parent_dict.items()]
        b = {(int(orig[p]), int(orig[ch])) for p, ch in b_raw}
        if a != b or len(b) != len(b_raw):
            return f"local tree at position {x} differs after mapping new nodes back"
        nodes = {u for pc in b_raw for u in pc}
        if len({int(orig[u]) for u in nodes}) != len(nodes):
            return f"two output nodes in the tree at position {x} come from the same input node"
    return None


def genotypes(ts):
    tskit = _tskit()
    out = {}
    for v in ts.variants(isolated_as_missing=False):
        out[float(v.site.position)] = tuple(v.alleles[g] if g != tskit.MISSING_DATA else None for g in v.genotypes)
    return out


def ts_oracle(ts_in, out, order, split, md=None, warned=None, md_class=None):
    """The statement of C29 on the returned tree sequence. Returns list of (kind, what)."""
    import tsdate
    tskit = _tskit()
    bad = []
    n0 = ts_in.num_nodes
    orig = np.asarray(order, dtype=np.int64)
    if out.num_nodes != orig.size:
        return [("node-table-size", f"{out.num_nodes} output nodes but nodes_order has {orig.size}")]
    # node table of the pieces
    was_split = np.zeros(n0, dtype=bool)
    was_split[np.asarray(split, dtype=np.int64)] = True
    want_flags = ts_in.nodes_flags[orig] | np.where(was_split[orig], tsdate.NODE_SPLIT_BY_PREPROCESS, 0).astype(ts_in.nodes_flags.dtype)
    if not np.array_equal(out.nodes_time, ts_in.nodes_time[orig]):
        bad.append(("piece-time-differs", "a piece's time differs from its original node's"))
    if not np.array_equal(out.nodes_flags, want_flags):
        bad.append(("piece-flags-differ", "a piece's flags are not the original's (| split flag for split nodes)"))
    if not (np.array_equal(out.nodes_population, ts_in.nodes_population[orig])
            and np.array_equal(out.nodes_individual, ts_in.nodes_individual[orig])):
        bad.append(("piece-population-or-individual-differs", "population/individual not copied to a piece"))
    if not np.array_equal(out.samples(), ts_in.samples()):
        bad.append(("samples-changed", "sample list changed"))
    # metadata: unsplit_node_id on every piece of a split node whose row can take the key ("where possible"),
    # every other row copied byte for byte; the warning exactly when some split node's row cannot take it
    if md is not None:
        try:
            rows_out = out_md_tokens(out)
            split_list = [int(u) for u in split]
            fails = [k for k, u in enumerate(split_list) if md["enc"][u] is None]
            first_fail = fails[0] if fails else None
            for v in range(out.num_nodes):
                u = int(orig[v])
                if was_split[u] and md["enc"][u] is not None:
                    md_in, md_out = ts_in.node(u).metadata, out.node(v).metadata
                    want = dict(md_in)
                    want[MD_KEY] = u
                    if md_out != want:
                        after_failure = first_fail is not None and split_list.index(u) > first_fail
                        if after_failure and rows_out[v] == md_tok(md["rows"][u]):
                            bad.append(("unsplit-id-skipped-after-earlier-failure",
                                        f"node {v} (piece of split node {u}) could store unsplit_node_id but did not get it: an earlier "
                                        f"split node ({split_list[first_fail]}) could not, and the try/except ends the whole loop"))
                        elif isinstance(md_out, dict) and MD_KEY in md_out and md_out.get(MD_KEY) != md_in.get(MD_KEY, None):
                            bad.append(("unsplit-node-id-wrong", f"node {v}: unsplit_node_id {md_out[MD_KEY]} but it is a piece of {u}"))
                        else:
                            bad.append(("unsplit-node-id-missing",
                                        f"node {v} is a piece of split node {u} and its metadata {md_in!r} can take the key "
                                        f"(schema {md_class}), but the output row is {md_out!r}"))
                        break
                elif rows_out[v] != md_tok(md["rows"][u]):
                    bad.append(("piece-metadata-differs", f"node {v}: metadata row differs from node {u}'s although nothing was to be added"))
                    break
            if warned is not None:
                if fails and not warned:
                    bad.append(("unsplit-warning-missing", "a split node's metadata cannot take unsplit_node_id but no warning was logged"))
                if not fails and warned:
                    bad.append(("unsplit-warning-spurious", "warning logged although every split node's metadata can take the key"))
        except Exception as e:  # noqa: BLE001
            bad.append(("metadata-undecodable", f"{type(e).__name__}: {e}"))
    # trees
    why = trees_isomorphic(ts_in, out, orig)
    if why:
        bad.append(("tree-not-isomorphic", why))
    # contiguity of non-sample nodes
    is_sample = (out.nodes_flags & tskit.NODE_IS_SAMPLE) != 0
    ivs = {}
    for l, r, p, ch in zip(out.edges_left, out.edges_right, out.edges_parent, out.edges_child):
        ivs.setdefault(int(p), []).append((l, r))
        ivs.setdefault(int(ch), []).append((l, r))
    for v, xs in ivs.items():
        if is_sample[v]:
            continue
        xs.sort()
        run = xs[0][1]
        for l, r in xs[1:]:
            if l > run:
                bad.append(("piece-has-gap", f"non-sample output node {v} has a gap in its ancestry before {l}"))
                break
            run = max(run, r)
    # leftmost piece keeps the id; pieces of one node are separated by genuine gaps
    first = {}
    for v, xs in ivs.items():
        first.setdefault(int(orig[v]), []).append((min(l for l, _ in xs), max(r for _, r in xs), v))
    for n, pcs in first.items():
        pcs.sort()
        if pcs[0][2] != n:
            bad.append(("leftmost-piece-renumbered", f"leftmost piece of node {n} is {pcs[0][2]}"))
        for (l1, r1, _), (l2, r2, _) in zip(pcs[:-1], pcs[1:]):
            if not r1 < l2:
                bad.append(("pieces-not-separated-by-gap", f"two pieces of node {n} overlap or touch at {l2}: only regions "
                            "separated by a gap may become distinct nodes"))
                break
    # mutations: site kept, node maps back, present piece; genotypes
    if out.num_sites != ts_in.num_sites or not np.array_equal(out.sites_position, ts_in.sites_position):
        bad.append(("sites-changed", "site table changed"))
    elif out.num_mutations != ts_in.num_mutations:
        bad.append(("mutation-count-changed", "number of mutations changed"))
    else:
        def key(ts, mapper):
            return sorted((int(m.site), int(mapper(m.node)), m.derived_state) for m in ts.mutations())
        if key(ts_in, lambda u: u) != key(out, lambda u: orig[u]):
            bad.append(("mutation-maps-to-wrong-node", "(site, original node, derived state) of the mutations changed"))
        tree = out.first()
        tin = ts_in.first()
        for m in out.mutations():
            x = out.sites_position[m.site]
            tree.seek(x)
            tin.seek(x)
            u = int(orig[m.node])
            present_in = tin.parent(u) != tskit.NULL or tin.num_children(u) > 0
            present_out = tree.parent(m.node) != tskit.NULL or tree.num_children(m.node) > 0
            if present_in and not present_out:
                bad.append(("mutation-on-absent-piece", f"mutation at {x} sits on node {m.node}, a piece of {u} absent from the tree there"))
                break
        if genotypes(ts_in) != genotypes(out):
            bad.append(("genotypes-changed", "decoded genotypes differ"))
    return bad
