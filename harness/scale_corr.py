"""
Shared code of the Scale cluster (C06 time-unit equivariance, C07 genome-coordinate invariance).

Stage C helpers: build the transformed input / option set of the property statement, run the real
`tsdate.date`, and compare outputs with the per-method tolerances of DESIGN.md §2.2.
Stage B helpers: run the Lean model (`Driver/Scale.lean`) against the real functions of the pipeline
pieces (likelihood arguments recorded by rebinding, prior-grid arguments, `_constrain_ages`,
`mutational_timescale`, `piecewise_scale_point_estimate`, posterior mean/variance).
"""

import contextlib
import json

import numpy as np

from . import common, dating, gen
from .common import Violation, f2h, h2f

# scale factors of the statement: decades 1e-6..1e6 and non-powers of two
C06_SCALES = [10.0 ** k for k in range(-6, 7) if k != 0] + [3.7, 0.37, 3.141592653589793]
C07_SCALES = [1e-3, 1e3, 0.37, 4.0]      # extremes first: stage B records the first one

RTOL = dict(
    discrete=dict(time=1e-9, mn=1e-9, vr=1e-9),
    variational_gamma=dict(time=1e-6, mn=1e-6, vr=1e-5),
)


def tol_for(method):
    return RTOL["variational_gamma"] if method == "variational_gamma" else RTOL["discrete"]


# ----------------------------------------------------------------------------- input transforms

def scale_times_ts(ts, c):
    """Every node time (hence every historical sample time) multiplied by c; mutation times unknown."""
    import tskit
    tables = ts.dump_tables()
    tables.nodes.time = tables.nodes.time * c
    tables.mutations.time = np.full_like(tables.mutations.time, tskit.UNKNOWN_TIME)
    return tables.tree_sequence()


def scale_coords_ts(ts, c):
    """Sequence length, edge ends, site positions (and migrations, none here) multiplied by c."""
    import tskit
    tables = ts.dump_tables()
    tables.sequence_length = ts.sequence_length * c
    tables.edges.left = tables.edges.left * c
    tables.edges.right = tables.edges.right * c
    tables.sites.position = tables.sites.position * c
    tables.mutations.time = np.full_like(tables.mutations.time, tskit.UNKNOWN_TIME)
    return tables.tree_sequence()


def unknown_mut_times(ts):
    import tskit
    tables = ts.dump_tables()
    tables.mutations.time = np.full_like(tables.mutations.time, tskit.UNKNOWN_TIME)
    return tables.tree_sequence()


def scale_popsize(ps, c):
    if isinstance(ps, dict):
        out = dict(population_size=[float(x) * c for x in ps["population_size"]])
        if "time_breaks" in ps:
            out["time_breaks"] = [float(x) * c for x in ps["time_breaks"]]
        return out
    return float(ps) * c


def c06_kwargs(kw, c):
    """Option set of the C06 statement: mutation_rate / c, min_branch_length * c and, for the discrete
    methods, population_size (and epoch breaks) * c, eps * c, user timepoints * c.  Absolute-unit
    defaults (min_branch_length 1e-8, eps 1e-8) are made explicit before scaling."""
    out = dict(kw)
    out["mutation_rate"] = kw["mutation_rate"] / c
    out["min_branch_length"] = kw.get("min_branch_length", 1e-8) * c
    if kw["method"] != "variational_gamma":
        out["eps"] = kw.get("eps", 1e-8) * c
        if "population_size" in kw:
            out["population_size"] = scale_popsize(kw["population_size"], c)
        if "timepoints" in kw and not isinstance(kw["timepoints"], int):
            out["timepoints"] = [float(x) * c for x in kw["timepoints"]]
    return out


def c07_kwargs(kw, c):
    out = dict(kw)
    out["mutation_rate"] = kw["mutation_rate"] / c
    return out


def explicit_defaults(kw):
    """the base run uses the same explicit absolute-unit options as the scaled one"""
    out = dict(kw)
    out.setdefault("min_branch_length", 1e-8)
    if kw["method"] != "variational_gamma":
        out.setdefault("eps", 1e-8)
    return out


# ----------------------------------------------------------------------------- running date()

def run(ts, kw):
    """date() with our option dict (`timepoints` is turned into a prior grid built by the real code)."""
    import tsdate
    kw = dict(kw)
    method = kw.pop("method")
    tp = kw.pop("timepoints", None)
    if tp is not None and method != "variational_gamma":
        ps = kw.pop("population_size")
        dating.quiet()
        try:
            tpa = tp if isinstance(tp, int) else np.array(tp, dtype=float)
            if isinstance(ps, dict):
                ps = tsdate.demography.PopulationSizeHistory(**ps)
            pri = tsdate.build_prior_grid(ts, population_size=ps, timepoints=tpa,
                                          prior_distribution=kw.pop("prior_distribution", "lognorm"),
                                          allow_unary=bool(kw.get("allow_unary", False)))
        except BaseException as e:  # noqa: BLE001
            if isinstance(e, (KeyboardInterrupt, MemoryError)):
                raise
            return dict(ok=False, out=None, exc=type(e).__name__, msg=str(e)[:300])
        kw["priors"] = pri
    else:
        kw.pop("prior_distribution", None)
    return dating.run_date(ts, method=method, **kw)


def outputs(out):
    """Observable outputs of the statement: node times, mutation times, mn/vr metadata."""
    d = dict(nodes_time=out.nodes_time.copy(), mutations_time=out.mutations_time.copy())
    for name, table, n in (("node", out.tables.nodes, out.num_nodes), ("mut", out.tables.mutations, out.num_mutations)):
        mn = np.full(n, np.nan)
        vr = np.full(n, np.nan)
        if table.metadata_schema.schema is not None and len(table.metadata) > 0:
            for i, row in enumerate(table):
                md = row.metadata
                if isinstance(md, dict):
                    mn[i] = md.get("mn", np.nan)
                    vr[i] = md.get("vr", np.nan)
        d[name + "_mn"] = mn
        d[name + "_vr"] = vr
    # mutations compared by (site position rank, node, derived state): tables.sort() may permute rows
    order = np.lexsort((out.mutations_node, out.mutations_site))
    d["mut_key"] = [(int(out.mutations_site[i]), int(out.mutations_node[i])) for i in order]
    for k in ("mutations_time", "mut_mn", "mut_vr"):
        d[k] = d[k][order]
    return d


def relerr(a, b):
    """max over entries of |a-b| / max(|a|,|b|); NaN pattern must agree (returns inf otherwise)."""
    a = np.asarray(a, dtype=float)
    b = np.asarray(b, dtype=float)
    if a.shape != b.shape:
        return float("inf")
    na, nb = np.isnan(a), np.isnan(b)
    if np.any(na != nb):
        return float("inf")
    a, b = a[~na], b[~nb]
    if a.size == 0:
        return 0.0
    den = np.maximum(np.abs(a), np.abs(b))
    with np.errstate(invalid="ignore", divide="ignore"):
        r = np.where(den > 0, np.abs(a - b) / den, 0.0)
    return float(np.max(r))


def compare(base, other, c_time, method):
    """other should be base with times * c_time, variances * c_time^2. Returns {field: relerr}."""
    errs = {}
    errs["nodes_time"] = relerr(base["nodes_time"] * c_time, other["nodes_time"])
    if base["mut_key"] != other["mut_key"]:
        errs["mutations_node"] = float("inf")
    errs["mutations_time"] = relerr(base["mutations_time"] * c_time, other["mutations_time"])
    errs["node_mn"] = relerr(base["node_mn"] * c_time, other["node_mn"])
    errs["node_vr"] = relerr(base["node_vr"] * c_time * c_time, other["node_vr"])
    errs["mut_mn"] = relerr(base["mut_mn"] * c_time, other["mut_mn"])
    errs["mut_vr"] = relerr(base["mut_vr"] * c_time * c_time, other["mut_vr"])
    return errs


def field_tol(field, method):
    t = tol_for(method)
    if field.endswith("_vr"):
        return t["vr"]
    if field.endswith("_mn"):
        return t["mn"]
    return t["time"]


def kw_jsonable(kw):
    out = {}
    for k, v in kw.items():
        if isinstance(v, float):
            out[k] = dict(hex=float(v).hex())
        elif isinstance(v, (list, tuple)) and v and isinstance(v[0], float):
            out[k] = dict(hexlist=[float(x).hex() for x in v])
        elif isinstance(v, dict):
            out[k] = dict(obj={kk: [float(x).hex() for x in vv] for kk, vv in v.items()})
        else:
            out[k] = v
    return out


def kw_from_jsonable(d):
    out = {}
    for k, v in d.items():
        if isinstance(v, dict) and "hex" in v:
            out[k] = float.fromhex(v["hex"])
        elif isinstance(v, dict) and "hexlist" in v:
            out[k] = [float.fromhex(x) for x in v["hexlist"]]
        elif isinstance(v, dict) and "obj" in v:
            out[k] = {kk: [float.fromhex(x) for x in vv] for kk, vv in v["obj"].items()}
        else:
            out[k] = v
    return out


# ----------------------------------------------------------------------------- option generators

def draw_options(rng, ts, info, method=None, flavour=None):
    """An option set (as our dict incl. `method`) accepted by the API, with enough structure to reach
    the absolute-unit parameters of the statement."""
    method = method or str(rng.choice(["variational_gamma", "inside_outside", "maximization"]))
    kw = dict(method=method, mutation_rate=float(info["mu"]))
    if any(f.startswith("unary") for f in info.get("fired", [])):
        kw["allow_unary"] = True
    if rng.random() < 0.5:
        kw["min_branch_length"] = float(rng.choice([1e-8, 1e-6, 1e-3, 0.5]))
    if rng.random() < 0.3:
        kw["constr_iterations"] = int(rng.choice([0, 1, 10, 100]))
    if method == "variational_gamma":
        kw["max_iterations"] = int(rng.choice([1, 2, 5, 10, 25]))
        kw["rescaling_intervals"] = int(rng.choice([0, 1, 2, 3, 5, 20, 1000]))
        if rng.random() < 0.3:
            kw["rescaling_iterations"] = int(rng.choice([1, 2, 5]))
        if rng.random() < 0.3:
            kw["match_segregating_sites"] = True
        if rng.random() < 0.2:
            kw["max_shape"] = float(rng.choice([2.0, 10.0, 100.0]))
        if rng.random() < 0.2:
            kw["regularise_roots"] = False
        if rng.random() < 0.2 and info.get("ploidy", 1) == 2:
            kw["singletons_phased"] = False
    else:
        r = rng.random()
        if r < 0.6 and flavour != "epochs_tp":
            kw["population_size"] = float(info["Ne"])
        else:
            ne = float(info["Ne"])
            kw["population_size"] = dict(population_size=[ne, ne * float(rng.choice([0.2, 3.0])), ne * 0.7],
                                         time_breaks=[ne * 0.1, ne * 1.5])
        if rng.random() < 0.5:
            kw["probability_space"] = str(rng.choice(["linear", "logarithmic"]))
        if rng.random() < 0.4:
            kw["eps"] = float(rng.choice([1e-10, 1e-8, 1e-6, 1e-3]))
        r = rng.random()
        if flavour == "epochs_tp":
            # user timepoints that sit on, just below and just above the epoch breaks: an epoch lookup with an
            # absolute tolerance, or a grid point mapped with the wrong epoch's measure, shows up here
            ne = float(info["Ne"])
            k = int(rng.choice([6, 12]))
            tps = set(float(x) for x in rng.uniform(0.01, 8, size=k) * ne)
            # (not closer than that: grid points 1e-12 apart make `tp[i] - tp[j]` cancel catastrophically and the
            # comparison across units then measures rounding, not the property)
            for b in kw["population_size"]["time_breaks"]:
                tps |= {b, b - 0.3, b + 0.3}
            kw["timepoints"] = [0.0] + sorted(tps)
        elif r < 0.25:
            kw["timepoints"] = int(rng.choice([5, 10, 30]))
        elif r < 0.5:
            ne = float(info["Ne"])
            k = int(rng.choice([6, 12, 25]))
            kw["timepoints"] = [0.0] + sorted(float(x) for x in rng.uniform(0.01, 8, size=k) * ne)
        if "timepoints" in kw and rng.random() < 0.3:
            kw["prior_distribution"] = "gamma"
        if method == "inside_outside" and rng.random() < 0.2:
            kw["outside_standardize"] = False
        if method == "inside_outside" and rng.random() < 0.2:
            kw["ignore_oldest_root"] = True
    return kw


def draw_ts(rng, method, hist=None, unary=None):
    """A tree sequence with mutations; historical samples only for the variational method
    (`hist` forces them on/off)."""
    if unary == "two_tree":
        return unary_two_tree(rng)
    if unary == "subset":
        return unary_subset(rng)
    if method != "variational_gamma":
        hp = 0.0
    elif hist is None:
        hp = 0.4
    else:
        hp = 1.0 if hist else 0.0
    ploidy = 2 if (method == "variational_gamma" and not hp and rng.random() < 0.25) else 1
    for _ in range(20):
        ts, info = gen.gen_ts(rng, historical=hp, polytomy=0.15, ploidy=ploidy, n=int(rng.integers(3, 8)),
                              trees=int(rng.choice([1, 2, 3, 5, 8])), muts_per_edge=float(rng.choice([2, 4, 8])))
        if ts.num_mutations >= 5 and ts.num_edges > 0:
            return unknown_mut_times(ts), info
    return unknown_mut_times(ts), info


# ============================================================================= stage B
# The Lean model (Driver/Scale.lean, Float carrier) against the real functions.

def _hx(xs):
    return " ".join(f2h(x) for x in xs)


def _ns(xs):
    return " ".join(str(int(x)) for x in xs)


class Batch:
    """Collects driver cases, runs them in one driver process, hands back parsed replies."""

    def __init__(self):
        self.blocks = []
        self.meta = []

    def add(self, op, fields, meta):
        i = len(self.blocks)
        lines = [f"case {i}", f"op {op}"]
        for k, v in fields.items():
            if v is None:
                continue
            lines.append(f"{k} {v}")
        lines.append("end")
        self.blocks.append("\n".join(lines) + "\n")
        self.meta.append(dict(meta, op=op, fields={k: v for k, v in fields.items() if v is not None}))
        return i

    def run(self):
        if not self.blocks:
            return {}
        out = {}
        for ln in common.lean_driver("Scale", "".join(self.blocks)):
            parts = ln.split(" ", 1)
            if not parts or not parts[0].isdigit():
                continue
            i = int(parts[0])
            body = parts[1] if len(parts) > 1 else ""
            if body.strip() == "bad-op":
                out[i] = None
            else:
                out[i] = [sec.split() for sec in body.split("|")]
        return out


def fsec(sec):
    return np.array([h2f(x) for x in sec], dtype=float)


def same_bits(a, b):
    a = np.asarray(a, dtype=float)
    b = np.asarray(b, dtype=float)
    return a.shape == b.shape and all(f2h(x) == f2h(y) for x, y in zip(a, b))


@contextlib.contextmanager
def record_discrete():
    """Record (a) every Poisson call (k, lambda array) and (b) every fill_priors call (coalescent
    timepoints, population-size history, resulting time grid) made by the real code."""
    import scipy.stats
    import tsdate.prior as prior
    rec = dict(pmf=[], fill=[])
    p = scipy.stats.poisson
    o_pmf, o_logpmf = p.pmf, p.logpmf

    def mk(orig, name):
        def w(k, mu, *a, **kw):
            rec["pmf"].append((name, int(np.asarray(k).reshape(-1)[0]) if np.ndim(k) else int(k),
                               np.array(mu, dtype=float, copy=True).reshape(-1)))
            return orig(k, mu, *a, **kw)
        return w

    p.pmf = mk(o_pmf, "pmf")
    p.logpmf = mk(o_logpmf, "logpmf")
    o_fill = prior.fill_priors

    def fill(node_parameters, timepoints, ts, population_size, **kw):
        out = o_fill(node_parameters, timepoints, ts, population_size, **kw)
        rec["fill"].append(dict(coal=np.array(timepoints, dtype=float, copy=True),
                                ps=np.array(population_size.population_size, dtype=float) / 2,
                                tb=np.array(population_size.time_breaks[1:], dtype=float),
                                grid=np.array(out.timepoints, dtype=float, copy=True)))
        return out

    prior.fill_priors = fill
    try:
        yield rec
    finally:
        del p.pmf
        del p.logpmf
        prior.fill_priors = o_fill


def corr_discrete(ts, kw, rec, fit, batch, tag):
    """Queue driver cases for one real discrete run; returns a list of deferred checks
    (callables taking the driver replies and returning a list of (kind, what))."""
    checks = []
    method = kw["method"]
    eps, mu = float(kw["eps"]), float(kw["mutation_rate"])
    # ---- prior grid
    for f in rec["fill"]:
        utp = kw.get("timepoints")
        fields = dict(ps=_hx(f["ps"]), tb=_hx(f["tb"]) if f["tb"].size else None)
        if utp is not None and not isinstance(utp, int):
            fields["tp"] = _hx(sorted(float(x) for x in utp))
        else:
            fields["coal"] = _hx(f["coal"])
        i = batch.add("grid", fields, dict(tag=tag))

        def chk(rep, i=i, f=f):
            r = rep.get(i)
            if r is None:
                return [("model-rejects-grid", f"{tag}: driver refused the prior-grid case")]
            bad = []
            if not same_bits(fsec(r[0]), f["coal"]):
                bad.append(("coalescent-timepoints-differ", f"{tag}: coalescent timepoints of the model differ from fill_priors' argument"))
            if not same_bits(fsec(r[1]), f["grid"]):
                bad.append(("time-grid-differs", f"{tag}: model time grid differs from priors.timepoints"))
            return bad
        checks.append(chk)
    grid = np.array(fit.lik.timepoints, dtype=float)
    G = grid.size
    # ---- likelihood arguments
    fixed = set(int(x) for x in fit.fixednodes)
    mut_edges = fit.lik.mut_edges
    edges = [(int(mut_edges[e.id]), int(e.child), float(e.span), int(e.child) in fixed) for e in ts.edges()]
    spans = sorted({e[2] for e in edges})
    i_lik = batch.add("lik", dict(grid=_hx(grid), eps=f2h(eps), mu=f2h(mu), spans=_hx(spans)), dict(tag=tag))
    # maximization candidates: for every recorded short call, every edge with that count, every parent index
    cand = {}
    skip = set()          # recorded maximization calls left unverified (budget): indices into rec["pmf"]
    if method == "maximization":
        nshort = 0
        for ci, (_, k, lam) in enumerate(rec["pmf"]):
            if lam.size == G * (G + 1) // 2 and G > 1:
                continue
            yi = lam.size - 1
            if lam.size < G:
                nshort += 1
                if nshort > 10:
                    skip.add(ci)
                    continue
            for sp in sorted({e[2] for e in edges if e[0] == k}):
                for pi in range(yi, G):
                    key = (yi, pi, sp)
                    if key not in cand:
                        cand[key] = batch.add("maxargs", dict(grid=_hx(grid), eps=f2h(eps), mu=f2h(mu), span=f2h(sp),
                                                              pi=str(pi), yi=str(yi)), dict(tag=tag))

    def chk_lik(rep):
        r = rep.get(i_lik)
        if r is None:
            return [("model-rejects-lik", f"{tag}: driver refused the likelihood case")]
        tri = {sp: fsec(r[2 * j]) for j, sp in enumerate(spans)}
        fx = {sp: fsec(r[2 * j + 1]) for j, sp in enumerate(spans)}
        model_sets = {}
        for (k, _, sp, _) in edges:
            model_sets.setdefault(k, set()).add(tuple(f2h(x) for x in tri[sp]))
            model_sets.setdefault(k, set()).add(tuple(f2h(x) for x in fx[sp]))
        for (yi, pi, sp), ci in cand.items():
            rr = rep.get(ci)
            if rr is not None:
                for (k, _, sp2, _) in edges:
                    if sp2 == sp:
                        model_sets.setdefault(k, set()).add(tuple(rr[0]))
        bad = []
        seen = {}
        for ci, (name, k, lam) in enumerate(rec["pmf"]):
            key = tuple(f2h(x) for x in lam)
            seen.setdefault(k, set()).add(key)
            if ci in skip:
                continue
            if key not in model_sets.get(k, set()):
                bad.append(("poisson-argument-not-in-model",
                            f"{tag}: a Poisson parameter vector passed to {name} (k={k}, len={lam.size}) is not "
                            f"dt*mu*span of the model for any edge"))
                break
        # coverage: every edge's model vector was actually used by the code
        for (k, _, sp, fx_child) in edges:
            want = tuple(f2h(x) for x in (fx[sp] if fx_child else tri[sp]))
            if want not in seen.get(k, set()):
                bad.append(("edge-likelihood-never-computed",
                            f"{tag}: the model's Poisson parameters of an edge (k={k}, span={sp}) were never passed to scipy"))
                break
        return bad
    checks.append(chk_lik)
    # ---- spans and span fractions
    roots = [(int(t.root), float(t.span)) for t in ts.trees(root_threshold=2) if t.has_single_root]
    i_sp = batch.add("spans", dict(muts=_ns([e[0] for e in edges]), child=_ns([e[1] for e in edges]),
                                   span=_hx([e[2] for e in edges]),
                                   rootid=_ns([r[0] for r in roots]) if roots else None,
                                   rootspan=_hx([r[1] for r in roots]) if roots else None,
                                   nodes=str(ts.num_nodes)), dict(tag=tag))

    def chk_sp(rep):
        r = rep.get(i_sp)
        if r is None:
            return [("model-rejects-spans", f"{tag}: driver refused the spans case")]
        ns = fsec(r[0])
        real = np.array(fit.spans, dtype=float)
        if not same_bits(ns, real):
            if relerr(ns, real) > 1e-13:
                return [("node-spans-differ", f"{tag}: model node spans differ from BeliefPropagation.spans")]
        sf = fsec(r[1])
        real_sf = np.array([e.span / fit.spans[e.child] for e in ts.edges()])
        if relerr(sf, real_sf) > 1e-13:
            return [("span-fractions-differ", f"{tag}: model span fractions differ")]
        return []
    checks.append(chk_sp)
    # ---- posterior mean / variance (inside_outside)
    if method == "inside_outside":
        import tsdate.core as core
        post = fit.posterior_grid
        mn, va = core.DiscreteTimeMethod.mean_var(ts, post)
        for u in list(post.nonfixed_nodes)[:6]:
            probs = np.array(post[u], dtype=float)
            iu = batch.add("meanvar", dict(probs=_hx(probs), times=_hx(post.timepoints)), dict(tag=tag))

            def chk_mv(rep, iu=iu, u=int(u)):
                r = rep.get(iu)
                if r is None:
                    return [("model-rejects-meanvar", f"{tag}: driver refused mean_var of node {u}")]
                m = fsec(r[0])
                if relerr([m[0]], [mn[u]]) > 1e-12 or relerr([m[1]], [va[u]]) > 1e-10:
                    return [("mean-var-differs", f"{tag}: model mean/var of node {u} = {m[0]!r},{m[1]!r}, "
                                                 f"mean_var gives {mn[u]!r},{va[u]!r}")]
                return []
            checks.append(chk_mv)
    return checks


def vg_inputs(ts, mu, size_biased):
    """The arrays `ExpectationPropagation.rescale` hands to mutational_timescale."""
    from tsdate import rescaling
    lik, _ = rescaling.count_mutations(ts, size_biased=size_biased)
    stats = lik.copy()
    lik = lik.copy()
    lik[:, 1] *= mu
    fixed = np.zeros(ts.num_nodes, dtype=bool)
    fixed[list(ts.samples())] = True
    return stats, lik, fixed


def corr_rescale(ts, mu, t, k, iters, size_biased, batch, tag):
    """mutational_area / mutational_timescale / piecewise_scale_point_estimate / the rescale loop."""
    from tsdate import rescaling
    stats, lik, fixed = vg_inputs(ts, mu, size_biased)
    ep, ec = ts.edges_parent, ts.edges_child
    checks = []
    base = dict(t=_hx(t), y=_hx(lik[:, 0]), m=_hx(lik[:, 1]), ep=_ns(ep), ec=_ns(ec))
    i_el = batch.add("edgelik", dict(y=_hx(stats[:, 0]), span=_hx(stats[:, 1]), mu=f2h(mu)), dict(tag=tag))

    def chk_el(rep):
        r = rep.get(i_el)
        if r is None or not same_bits(fsec(r[0]), lik[:, 1]):
            return [("edge-likelihoods-differ", f"{tag}: model span*mu differs from edge_likelihoods[:,1]")]
        return []
    checks.append(chk_el)
    counts, offset, duration, index = rescaling.mutational_area(t, lik, ep, ec)
    i_ar = batch.add("area", base, dict(tag=tag))

    def chk_ar(rep):
        r = rep.get(i_ar)
        if r is None:
            return [("model-rejects-area", f"{tag}: driver refused mutational_area")]
        bad = []
        if [int(x) for x in r[3]] != [int(x) for x in index]:
            bad.append(("area-index-differs", f"{tag}: nodes_index of the model differs from mutational_area"))
        for name, sec, real in (("counts", r[0], counts), ("offset", r[1], offset), ("duration", r[2], duration)):
            if not same_bits(fsec(sec), real):
                bad.append((f"area-{name}-differs", f"{tag}: model {name} differ from mutational_area "
                                                    f"(max rel {relerr(fsec(sec), real):.3g})"))
        return bad
    checks.append(chk_ar)
    try:
        origin, adjust = rescaling.mutational_timescale(t, lik, fixed, ep, ec, k)
        ok = bool(np.all(np.isfinite(origin)) and np.all(np.isfinite(adjust)))
    except BaseException as e:  # noqa: BLE001   (AssertionError "Zero edge span in interval")
        if isinstance(e, (KeyboardInterrupt, MemoryError)):
            raise
        ok = False
    i_ts = batch.add("timescale", dict(base, k=str(k)), dict(tag=tag))
    if not ok:
        def chk_rej(rep):
            return [] if rep.get(i_ts) is None else \
                [("model-accepts-rejected-timescale", f"{tag}: mutational_timescale raised / non-finite but the model returned")]
        checks.append(chk_rej)
        return checks, None

    def chk_ts(rep):
        r = rep.get(i_ts)
        if r is None:
            return [("model-rejects-timescale", f"{tag}: driver refused mutational_timescale")]
        bad = []
        if not same_bits(fsec(r[0]), origin):
            bad.append(("timescale-origin-differs", f"{tag}: model origin differs (max rel {relerr(fsec(r[0]), origin):.3g})"))
        if not same_bits(fsec(r[1]), adjust):
            bad.append(("timescale-adjust-differs", f"{tag}: model adjust differs (max rel {relerr(fsec(r[1]), adjust):.3g})"))
        return bad
    checks.append(chk_ts)
    strictly = bool(np.all(np.diff(origin) > 0) and np.all(np.diff(adjust) > 0))
    if strictly and origin.size >= 2:
        out = rescaling.piecewise_scale_point_estimate(t, fixed, origin, adjust)
        i_pw = batch.add("piecewise", dict(x=_hx(t), fixed=_ns(fixed.astype(int)), orig=_hx(origin), resc=_hx(adjust)),
                         dict(tag=tag))

        def chk_pw(rep):
            r = rep.get(i_pw)
            if r is None or not same_bits(fsec(r[0]), out):
                return [("piecewise-differs", f"{tag}: model piecewise_scale_point_estimate differs")]
            return []
        checks.append(chk_pw)
        # the loop
        cur = t.copy()
        good = True
        try:
            for _ in range(iters):
                o, a = rescaling.mutational_timescale(cur, lik, fixed, ep, ec, k)
                cur = rescaling.piecewise_scale_point_estimate(cur, fixed, o, a)
            good = bool(np.all(np.isfinite(cur)))
        except BaseException as e:  # noqa: BLE001
            if isinstance(e, (KeyboardInterrupt, MemoryError)):
                raise
            good = False
        if good:
            i_lp = batch.add("loop", dict(base, fixed=_ns(fixed.astype(int)), k=str(k), iters=str(iters)), dict(tag=tag))

            def chk_lp(rep):
                r = rep.get(i_lp)
                if r is None or not same_bits(fsec(r[0]), cur):
                    return [("rescale-loop-differs", f"{tag}: model rescale loop differs after {iters} iterations"
                             + ("" if r is None else f" (max rel {relerr(fsec(r[0]), cur):.3g})"))]
                return []
            checks.append(chk_lp)
    return checks, (origin, adjust)


def corr_mixture(ts, batch, tag, limit=4):
    """mixture_expect_and_var on the span mixtures of real nodes (single total-tip class)."""
    from tsdate import prior
    checks = []
    try:
        sbs = prior.SpansBySamples(ts, allow_unary=True)
    except BaseException as e:  # noqa: BLE001
        if isinstance(e, (KeyboardInterrupt, MemoryError)):
            raise
        return checks, None
    base = prior.ConditionalCoalescentTimes(None, "lognorm")
    base.add(ts.num_samples, False)
    for tf in sbs.total_fixed_at_0_counts:
        if tf > 0:
            base.add(tf, False)
    done = 0
    for node in sbs.nodes_to_date:
        mix = sbs.get_spans(node)
        if len(mix) != 1:
            continue
        N, arr = next(iter(mix.items()))
        if arr.shape[0] < 2:
            continue
        means = base[N][arr["descendant_tips"], base.mean_column]
        vars_ = base[N][arr["descendant_tips"], base.var_column]
        mean, var = base.mixture_expect_and_var(mix)
        i = batch.add("mixture", dict(means=_hx(means), vars=_hx(vars_), weights=_hx(arr["span"])), dict(tag=tag))

        def chk(rep, i=i, mean=mean, var=var, node=int(node)):
            r = rep.get(i)
            if r is None:
                return [("model-rejects-mixture", f"{tag}: driver refused the mixture of node {node}")]
            m = fsec(r[0])
            if relerr([m[0]], [mean]) > 1e-12 or abs(m[1] - var) > 1e-10 * max(abs(var), mean * mean):
                return [("mixture-differs", f"{tag}: model mixture mean/var {m[0]!r},{m[1]!r} vs {mean!r},{var!r}")]
            return []
        checks.append(chk)
        done += 1
        if done >= limit:
            break
    return checks, done


def corr_constrain(cases, batch, tag):
    """`_constrain_ages` (numba) against the committed Lean model, bit for bit (cases as in constrain_corr)."""
    from . import constrain_corr as cc
    impl = [cc.run_impl(c) for c in cases]
    checks = []
    for c, o in zip(cases, impl):
        i = batch.add("constrain", dict(eps=f2h(c["eps"]), iters=str(c["iters"]), fixed=_ns(np.asarray(c["fixed"]).astype(int)),
                                        times=_hx(c["t"]), edges=" ".join(f"{p} {ch}" for p, ch in zip(c["ep"], c["ec"]))),
                      dict(tag=tag))

        def chk(rep, i=i, o=o, c=c):
            r = rep.get(i)
            if r is None or not same_bits(fsec(r[0]), o):
                return [("constrain-model-differs", f"{tag}: _constrain_ages differs from the Lean model "
                                                    f"(iters={c['iters']}, eps={c['eps']!r}, mode={c.get('mode')})")]
            return []
        checks.append(chk)
    return impl, checks


# ============================================================================= finding F13 (rescaling, near-ties)

NEAR_TIE = "rescaling-near-tie-epoch"


def tie_pattern(mn, flags):
    """(number of exact ties, number of near ties with relative gap in (0, 1e-9)) among the posterior means of
    the non-sample nodes"""
    import tskit
    free = (np.asarray(flags) & tskit.NODE_IS_SAMPLE) == 0
    v = np.sort(np.asarray(mn, dtype=float)[free & np.isfinite(mn)])
    v = v[v > 0]
    if v.size < 2:
        return 0, 0
    gaps = np.diff(v) / v[1:]
    return int(np.sum(gaps == 0)), int(np.sum((gaps > 0) & (gaps < 1e-9)))


def near_tie_rescaling(ts0, kw0, ts1, kw1, c_time):
    """Is a variational_gamma disagreement between two equivalent runs the mechanism of finding F13?
    `mutational_timescale` gives every epoch between consecutive distinct node times the same weight, whatever
    its length, so it is discontinuous where two node times coincide: posterior means of symmetric nodes that
    differ by an ulp in one run and tie in the other change every rescaled date by percents.
    Criterion (computed on the implementation): (a) time rescaling is on, (b) with `rescaling_intervals=0` the two
    runs agree within tolerance, (c) the unrescaled posterior means of the non-sample nodes contain a near-tie
    (relative gap below 1e-9) in either run, or a different number of exact ties in the two runs."""
    if kw0["method"] != "variational_gamma":
        return None
    if kw0.get("rescaling_intervals", 1000) == 0 or kw0.get("rescaling_iterations", 5) == 0:
        return None
    r0 = run(ts0, dict(kw0, rescaling_intervals=0))
    r1 = run(ts1, dict(kw1, rescaling_intervals=0))
    if not (r0["ok"] and r1["ok"]):
        return None
    o0, o1 = outputs(r0["out"]), outputs(r1["out"])
    errs = compare(o0, o1, c_time, "variational_gamma")
    if any(e > field_tol(f, "variational_gamma") for f, e in errs.items()):
        return None
    e0, n0 = tie_pattern(o0["node_mn"], ts0.nodes_flags)
    e1, n1 = tie_pattern(o1["node_mn"], ts1.nodes_flags)
    if n0 + n1 > 0 or e0 != e1:
        return dict(kind=NEAR_TIE, exact_ties=(e0, e1), near_ties=(n0, n1))
    return None


# ============================================================================= stage B: the EP skeleton

def _ages(constraints):
    return " ".join(f2h(lo) if lo == hi else "n" for lo, hi in constraints)


def ep_snapshot(ep):
    f = ep.factors
    return dict(post=np.array(ep.node_posterior, copy=True), efac=np.array(f.edge, copy=True),
                nfac=np.array(f.node, copy=True), bfac=np.array(f.block, copy=True), scale=np.array(f.scale, copy=True))


def ep_clone_factors(ep, snap):
    from tsdate import variational
    f2 = variational.EPFactors(ep.node_constraints, ep.edge_parents, ep.edge_children, ep.block_nodes[0], ep.block_nodes[1])
    f2.node[:] = snap["nfac"]
    f2.edge[:] = snap["efac"]
    f2.block[:] = snap["bfac"]
    f2.scale[:] = snap["scale"]
    return f2


def ep_state_fields(ep, snap):
    return dict(post=_hx(snap["post"].reshape(-1)), efac=_hx(snap["efac"].reshape(-1)),
                nfac=_hx(snap["nfac"][:, 0, :].reshape(-1)), scale=_hx(snap["scale"]))


def ep_piece(ctx, res, stats, batch, checks, n_cases, time_scales=(1.0,)):
    """The EP skeleton of the model against the real `ExpectationPropagation`: `_damp`, `_rescale`, `node_moments`,
    `propagate_prior` on real mid-run states, and single-edge `propagate_likelihood` updates where the model computes
    the damping and the cavities, the REAL projection kernel is called on exactly those arguments, and the model
    finishes the update (factor, posterior and scale); everything bit-for-bit."""
    from tsdate import approx, variational
    rng = ctx.rng(17)
    TINY = float(variational.TINY)
    pre = Batch()
    pending = []
    for k in range(n_cases):
        ts, info = draw_ts(rng, "variational_gamma", hist=bool(k % 2))
        if any(ts.node(u).time != 0 for u in ts.samples()) and ts.num_individuals > 0:
            pass
        c = float(time_scales[k % len(time_scales)])
        if c != 1.0:
            ts = scale_times_ts(ts, c)
        mu = float(info["mu"]) / c
        try:
            ep = variational.ExpectationPropagation(ts, mutation_rate=mu)
        except BaseException as e:  # noqa: BLE001
            if isinstance(e, (KeyboardInterrupt, MemoryError)):
                raise
            continue
        if ep.block_order.size:
            continue
        max_shape = float(rng.choice([1000.0, 10.0, 2.5]))
        min_step = 0.1
        for _ in range(int(rng.integers(0, 3))):
            ep.iterate(max_shape=max_shape, min_step=min_step, regularise=bool(rng.random() < 0.7))
        m = int(rng.integers(0, ep.edge_order.size + 1))
        if m:
            lognorm = np.zeros(ep.edge_parents.size)
            ep.propagate_likelihood(ep.edge_order[:m], ep.edge_parents, ep.edge_children, ep.edge_likelihoods,
                                    ep.node_constraints, ep.node_posterior, ep.factors, lognorm, max_shape, min_step, False)
        snap = ep_snapshot(ep)
        res.evaluations += 1
        stats["ep_states"] = stats.get("ep_states", 0) + 1
        common_fields = dict(ep_state_fields(ep, snap), ep=_ns(ep.edge_parents), ec=_ns(ep.edge_children),
                             lik=_hx(ep.edge_likelihoods.reshape(-1)), ages=_ages(ep.node_constraints),
                             minstep=f2h(min_step), tiny=f2h(TINY))
        tag = f"ep:{k}:c={c!r}"
        # ---- node_moments
        post_ok = np.all(snap["post"][:, 1] > 0) if m or True else True
        fixed = ep.node_constraints[:, 0] == ep.node_constraints[:, 1]
        if np.all(snap["post"][~fixed, 1] > 0):
            mn, va = ep.node_moments()
            i_m = batch.add("moments", dict(ages=_ages(ep.node_constraints), post=_hx(snap["post"].reshape(-1))), dict(tag=tag))

            def chk_m(rep, i_m=i_m, mn=mn, va=va, tag=tag):
                r = rep.get(i_m)
                if r is None or not (same_bits(fsec(r[0]), mn) and same_bits(fsec(r[1]), va)):
                    return [("node-moments-differ", f"{tag}: model nodeMoments differs from ExpectationPropagation.node_moments")]
                return []
            checks.append((chk_m, None))
        # ---- propagate_prior on this state
        free = ep.unconstrained_roots
        if np.any(free) and np.all((snap["post"] - snap["nfac"][:, 0, :] * snap["scale"][:, None])[free, 1] > 0):
            post2 = snap["post"].copy()
            f2 = ep_clone_factors(ep, snap)
            try:
                ep.propagate_prior(free, post2, f2, max_shape, 10, 1e-8)
                okp = True
            except BaseException as e:  # noqa: BLE001
                if isinstance(e, (KeyboardInterrupt, MemoryError)):
                    raise
                okp = False
            if okp:
                i_p = batch.add("prior", dict(ep_state_fields(ep, snap), free=_ns(free.astype(int)), maxshape=f2h(max_shape),
                                              reltol=f2h(1e-8), maxitt="10"), dict(tag=tag))
                nf2, sc2_ = np.array(f2.node[:, 0, :], copy=True), np.array(f2.scale, copy=True)

                def chk_p(rep, i_p=i_p, post2=post2, nf2=nf2, sc2_=sc2_, tag=tag):
                    r = rep.get(i_p)
                    if r is None:
                        return [("model-rejects-prior", f"{tag}: driver refused propagate_prior")]
                    bad = []
                    if not same_bits(fsec(r[0]), post2.reshape(-1)):
                        bad.append(("propagate-prior-posterior-differs", f"{tag}: model posterior after propagate_prior differs "
                                    f"(max rel {relerr(fsec(r[0]), post2.reshape(-1)):.3g})"))
                    if not same_bits(fsec(r[1]), nf2.reshape(-1)):
                        bad.append(("propagate-prior-factor-differs", f"{tag}: model MIXPRIOR factors differ"))
                    if not same_bits(fsec(r[2]), sc2_):
                        bad.append(("propagate-prior-scale-differs", f"{tag}: model scale differs"))
                    return bad
                checks.append((chk_p, None))
                stats["ep_prior_cases"] = stats.get("ep_prior_cases", 0) + 1
        # ---- single-edge updates: phase 1 (model computes the projection arguments)
        E = ep.edge_parents.size
        for ei in [int(x) for x in rng.choice(E, size=min(4, E), replace=False)]:
            i_pre = pre.add("ep_pre", dict(common_fields, ei=str(ei)), dict(tag=tag))
            pending.append((i_pre, ep, snap, ei, max_shape, min_step, common_fields, tag))
    rep_pre = pre.run()
    stats["driver_cases_pre"] = len(pre.blocks)
    for (i_pre, ep, snap, ei, max_shape, min_step, common_fields, tag) in pending:
        r = rep_pre.get(i_pre)
        # real single-edge update on a copy of the state
        post2 = snap["post"].copy()
        f2 = ep_clone_factors(ep, snap)
        lognorm = np.zeros(ep.edge_parents.size)
        try:
            ep.propagate_likelihood(np.array([ei], dtype=np.int32), ep.edge_parents, ep.edge_children, ep.edge_likelihoods,
                                    ep.node_constraints, post2, f2, lognorm, max_shape, min_step, False)
        except BaseException as e:  # noqa: BLE001   (an assert of _damp on a degenerate state)
            if isinstance(e, (KeyboardInterrupt, MemoryError)):
                raise
            stats["ep_edge_rejected"] = stats.get("ep_edge_rejected", 0) + 1
            continue
        real_post = post2.reshape(-1)
        real_fac = np.array(f2.edge[ei], copy=True).reshape(-1)
        real_scale = np.array(f2.scale, copy=True)
        if r is None:
            checks.append((lambda rep, tag=tag, ei=ei: [("model-rejects-edge", f"{tag}: driver refused edge {ei}")], None))
            continue
        kind = r[0][0]
        stats.setdefault("ep_edge_cases", {})
        stats["ep_edge_cases"][kind] = stats["ep_edge_cases"].get(kind, 0) + 1
        if kind == "skip":
            args, vals = [0.0], [0.0, 0.0]
        else:
            a = fsec(r[1])
            if not np.all(np.isfinite(a)):
                continue
            if kind == "joint":
                _, pi, pj = approx.gamma_projection(a[0:2].copy(), a[2:4].copy(), a[4:6].copy())
                vals = [pi[0], pi[1], pj[0], pj[1]]
            elif kind == "root":
                _, pi = approx.rootward_projection(float(a[0]), a[1:3].copy(), a[3:5].copy())
                vals = [pi[0], pi[1]]
            else:
                _, pj = approx.leafward_projection(float(a[0]), a[1:3].copy(), a[3:5].copy())
                vals = [pj[0], pj[1]]
            args = list(a)
        i_post = batch.add("ep_post", dict(common_fields, ei=str(ei), args=_hx(args), vals=_hx(vals), maxshape=f2h(max_shape)),
                           dict(tag=tag))

        def chk_e(rep, i_post=i_post, real_post=real_post, real_fac=real_fac, real_scale=real_scale, tag=tag, ei=ei, kind=kind):
            rr = rep.get(i_post)
            if rr is None:
                return [("model-rejects-edge", f"{tag}: driver refused the update of edge {ei}")]
            bad = []
            if not same_bits(fsec(rr[0]), real_post):
                bad.append(("ep-edge-posterior-differs", f"{tag}: edge {ei} ({kind}): model posterior differs from propagate_likelihood "
                            f"(max rel {relerr(fsec(rr[0]), real_post):.3g})"))
            if not same_bits(fsec(rr[1]), real_fac):
                bad.append(("ep-edge-factor-differs", f"{tag}: edge {ei} ({kind}): model edge factors differ"))
            if not same_bits(fsec(rr[2]), real_scale):
                bad.append(("ep-edge-scale-differs", f"{tag}: edge {ei} ({kind}): model scale differs"))
            return bad
        checks.append((chk_e, None))
    # ---- _damp / _rescale on random valid arguments
    for _ in range(max(10, n_cases * 3)):
        x = np.array([rng.uniform(-0.9, 50), 10.0 ** rng.uniform(-8, 3)])
        y = x * rng.uniform(0.0, 1.6, size=2) * (rng.random(2) < 0.9)
        s = float(rng.choice([0.1, 0.5, 0.01]))
        try:
            d = float(variational._damp(x, y, s))
            i_d = batch.add("damp", dict(x=_hx(x), y=_hx(y), s=f2h(s)), dict(tag="damp"))
            checks.append((lambda rep, i_d=i_d, d=d: [] if rep.get(i_d) is not None and same_bits(fsec(rep[i_d][0]), [d])
                           else [("damp-differs", "model damp differs from variational._damp")], None))
        except BaseException as e:  # noqa: BLE001
            if isinstance(e, (KeyboardInterrupt, MemoryError)):
                raise
        ms = float(rng.choice([1000.0, 10.0, 2.5]))
        xr = np.array([rng.uniform(-0.9, 3 * ms), 10.0 ** rng.uniform(-8, 3)])
        try:
            e_ = float(variational._rescale(xr, ms))
            i_r = batch.add("rescale", dict(x=_hx(xr), s=f2h(ms)), dict(tag="rescale"))
            checks.append((lambda rep, i_r=i_r, e_=e_: [] if rep.get(i_r) is not None and same_bits(fsec(rep[i_r][0]), [e_])
                           else [("rescale-differs", "model rescaleEta differs from variational._rescale")], None))
        except BaseException as e:  # noqa: BLE001
            if isinstance(e, (KeyboardInterrupt, MemoryError)):
                raise


# ============================================================================= unary inputs, SpansBySamples.second_pass

def unary_two_tree(rng):
    """Hand-built two-tree input of the shape that reaches `SpansBySamples.second_pass`: in the right-hand tree a
    chain of unary nodes sits above the topmost coalescence and ends in a node that is the (unary) root there but a
    coalescent node with fewer descendant samples in the left-hand tree.

         [0, b)                 [b, L)                 nodes 0-3 samples; `chain` extra unary nodes between 6 and T
            R                      T
          /   \\                    |
         T     \\                  (chain)
        / \\     \\                  |
       4   \\     \\                 6
      / \\   \\     \\               / \\
     0   1   2     3              5   3     with 5 = (4, 2), 4 = (0, 1)
    """
    import msprime
    import tskit
    L = float(rng.choice([10.0, 100.0, 1e3, 1e4]))
    b = float(np.floor(rng.uniform(0.2, 0.8) * L)) or 1.0
    chain = int(rng.choice([1, 1, 2, 3]))
    scale = float(rng.choice([1.0, 50.0, 1e3]))
    tables = tskit.TableCollection(sequence_length=L)
    for _ in range(4):
        tables.nodes.add_row(flags=tskit.NODE_IS_SAMPLE, time=0)
    times = np.cumsum(rng.uniform(0.5, 1.5, size=3 + chain + 2)) * scale
    ids = [tables.nodes.add_row(flags=0, time=float(t)) for t in times]
    n4, n5, n6 = ids[0], ids[1], ids[2]
    ch = ids[3:3 + chain]
    T, R = ids[3 + chain], ids[4 + chain]
    edges = [(0, L, n4, 0), (0, L, n4, 1),
             (0, b, T, n4), (0, b, T, 2), (0, b, R, T), (0, b, R, 3),
             (b, L, n5, n4), (b, L, n5, 2), (b, L, n6, n5), (b, L, n6, 3)]
    below = n6
    for u in ch:
        edges.append((b, L, u, below))
        below = u
    edges.append((b, L, T, below))
    for left, right, p, c in edges:
        tables.edges.add_row(left, right, p, c)
    tables.sort()
    ts = tables.tree_sequence()
    area = float(np.sum((ts.edges_right - ts.edges_left) * (ts.nodes_time[ts.edges_parent] - ts.nodes_time[ts.edges_child])))
    mu = float(rng.choice([2.0, 4.0])) * ts.num_edges / area
    ts = msprime.sim_mutations(ts, rate=mu, random_seed=int(rng.integers(1, 2**31 - 1)), discrete_genome=False)
    info = dict(n=4, ploidy=1, trees=ts.num_trees, Ne=scale, L=L, mu=mu, historical=False, fired=["unary_two_tree"],
                muts=ts.num_mutations, nodes=ts.num_nodes, edges=ts.num_edges)
    return unknown_mut_times(ts), info


def unary_subset(rng, want_second_pass=True, budget=40):
    """`simplify(keep_unary=True)` of a subset of the samples of a simulated tree sequence (unary stretches above
    the subset's local roots, as in inferred ancestors).  With `want_second_pass`, candidates are drawn until one
    has a node that is assigned by the second pass of SpansBySamples (or the budget runs out)."""
    best = None
    for _ in range(budget):
        ts0, info = gen.sim_ts(rng, n=int(rng.integers(6, 12)), trees=int(rng.choice([3, 5, 8, 15, 30])),
                               muts_per_edge=float(rng.choice([2.0, 4.0])))
        k = int(rng.integers(3, max(4, ts0.num_samples // 2 + 1)))
        keep = np.sort(rng.choice(ts0.samples(), size=k, replace=False))
        ts = ts0.simplify(samples=keep, keep_unary=True, filter_sites=False)
        if ts.num_mutations < 5:
            continue
        info = dict(info, fired=["unary_subset"], trees=ts.num_trees, nodes=ts.num_nodes, edges=ts.num_edges,
                    muts=ts.num_mutations)
        best = (unknown_mut_times(ts), info)
        if not want_second_pass:
            return best
        rec = probe_second_pass(ts)
        if rec is not None and rec["assigned"]:
            return best
    return best


def _flatten_spans(d):
    """node -> [((N, k), v)] in insertion order"""
    return {int(u): [((int(N), int(k)), float(v)) for N, kd in nd.items() for k, v in kd.items()] for u, nd in d.items()}


def probe_second_pass(ts):
    """Run the real SpansBySamples(ts, allow_unary=True) with `second_pass` rebound (no source hook): returns the
    span table and node spans before the pass, the list of visits (which node borrows from which ancestor in a tree
    of which span; found by the same topological walk), the table after the pass and the finished object; or None
    if the class rejects the input."""
    import tskit
    from tsdate import prior
    rec = dict(entered=False, assigned=[], visits=[], before={}, after={}, node_spans=None, sbs=None)
    orig = prior.SpansBySamples.second_pass

    def wrapper(self, trees_with_undated, n_tips_per_tree):
        rec["entered"] = True
        rec["before"] = _flatten_spans(self._spans)
        rec["node_spans"] = np.array(self.node_spans, dtype=float, copy=True)
        unassigned = self.nodes_remaining_to_date()
        have = set(int(u) for u in self._spans)
        tree_iter = self.ts.trees()
        tree = next(tree_iter)
        for tree_id in trees_with_undated:
            while tree.index != tree_id:
                tree = next(tree_iter)
            for node in unassigned:
                if tree.parent(node) == tskit.NULL:
                    continue
                n = node
                while True:
                    n = tree.parent(n)
                    if n == tskit.NULL or n in have:
                        break
                if n == tskit.NULL:
                    continue
                rec["visits"].append((int(node), int(n), float(tree.span), int(n_tips_per_tree[tree_id]),
                                      int(tree.num_samples(node))))
                have.add(int(node))
        out = orig(self, trees_with_undated, n_tips_per_tree)
        rec["after"] = _flatten_spans(self._spans)
        rec["assigned"] = sorted(int(u) for u in unassigned if u in self._spans)
        return out

    prior.SpansBySamples.second_pass = wrapper
    try:
        rec["sbs"] = prior.SpansBySamples(ts, allow_unary=True)
    except BaseException as e:  # noqa: BLE001
        if isinstance(e, (KeyboardInterrupt, MemoryError)):
            raise
        return None
    finally:
        prior.SpansBySamples.second_pass = orig
    return rec


def corr_second_pass(ts, batch, tag, stats):
    """Model `secondPass` (and the mixture over the resulting entries) against the real SpansBySamples."""
    from tsdate import prior
    dating.quiet()
    rec = probe_second_pass(ts)
    checks = []
    sp = stats.setdefault("second_pass", dict(probed=0, entered=0, reached=0, nodes_assigned=0, visits=0))
    sp["probed"] += 1
    if rec is None:
        return checks, None
    sp["entered"] += int(rec["entered"])
    if not rec["assigned"]:
        return checks, rec
    sp["reached"] += 1
    sp["nodes_assigned"] += len(rec["assigned"])
    sp["visits"] += len(rec["visits"])
    toks = []
    for u, ent in rec["before"].items():
        for (N, k), v in reversed(ent):
            toks += [str(u), str(N), str(k), f2h(v)]
    vt = []
    for (node, anc, span, tot, desc) in rec["visits"]:
        vt += [str(node), str(anc), f2h(span), str(tot), str(desc)]
    i = batch.add("secondpass", dict(table=" ".join(toks) if toks else None, nodespans=_hx(rec["node_spans"]),
                                     visits=" ".join(vt), nodes=_ns(rec["assigned"])), dict(tag=tag))

    def chk(rep, i=i, rec=rec):
        r = rep.get(i)
        if r is None:
            return [("model-rejects-second-pass", f"{tag}: driver refused the second-pass case")]
        for u, sec in zip(rec["assigned"], r):
            model = {(int(sec[j]), int(sec[j + 1])): sec[j + 2] for j in range(0, len(sec), 3)}
            real = {key: f2h(v) for key, v in rec["after"].get(u, [])}
            if model != real:
                return [("second-pass-spans-differ",
                         f"{tag}: spans of node {u} after SpansBySamples.second_pass differ from the model "
                         f"(model {sorted((k, h2f(v)) for k, v in model.items())}, code {sorted((k, h2f(v)) for k, v in real.items())})")]
        return []
    checks.append(chk)
    # mixture prior of the second-pass nodes (possibly several total-tip classes)
    sbs = rec["sbs"]
    base = prior.ConditionalCoalescentTimes(None, "lognorm")
    base.add(ts.num_samples, False)
    for tf in sbs.total_fixed_at_0_counts:
        if tf > 0:
            base.add(tf, False)
    for u in rec["assigned"][:3]:
        mix = sbs.get_spans(u)
        means, vars_, ws = [], [], []
        for N, arr in mix.items():
            means += list(base[N][arr["descendant_tips"], base.mean_column])
            vars_ += list(base[N][arr["descendant_tips"], base.var_column])
            ws += list(arr["span"])
        mean, var = base.mixture_expect_and_var(mix)
        j = batch.add("mixkeyed", dict(means=_hx(means), vars=_hx(vars_), weights=_hx(ws)), dict(tag=tag))

        def chk2(rep, j=j, mean=mean, var=var, u=u):
            r = rep.get(j)
            if r is None:
                return [("model-rejects-mixture", f"{tag}: driver refused the mixture of second-pass node {u}")]
            m = fsec(r[0])
            if relerr([m[0]], [mean]) > 1e-12 or abs(m[1] - var) > 1e-10 * max(abs(var), mean * mean):
                return [("second-pass-mixture-differs", f"{tag}: mixture mean/var of second-pass node {u}: model "
                                                        f"{m[0]!r},{m[1]!r} vs {mean!r},{var!r}")]
            return []
        checks.append(chk2)
    return checks, rec
