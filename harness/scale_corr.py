"""
Shared code of the Scale cluster (C06 time-unit equivariance, C07 genome-coordinate invariance).

Stage C helpers: build the transformed input / option set of the property statement, run the real
`tsdate.date`, and compare outputs with the per-method tolerances of DESIGN.md §2.2.
Stage B helpers: run the Lean model (`Driver/Scale.lean`) against the real functions of the pipeline
pieces (likelihood arguments recorded by rebinding, prior-grid arguments, `_constrain_ages`,
`mutational_timescale`, `piecewise_scale_point_estimate`, posterior mean/variance).
"""

import contextlib
import json

import numpy as np

from . import common, dating, gen
from .common import Violation, f2h, h2f

# scale factors of the statement: decades 1e-6..1e6 and non-powers of two
C06_SCALES = [10.0 ** k for k in range(-6, 7) if k != 0] + [3.7, 0.37, 3.141592653589793]
C07_SCALES = [4.0, 0.37, 1e-3, 1e3]

RTOL = dict(
    discrete=dict(time=1e-9, mn=1e-9, vr=1e-9),
    variational_gamma=dict(time=1e-6, mn=1e-6, vr=1e-5),
)


def tol_for(method):
    return RTOL["variational_gamma"] if method == "variational_gamma" else RTOL["discrete"]


# ----------------------------------------------------------------------------- input transforms

def scale_times_ts(ts, c):
    """Every node time (hence every historical sample time) multiplied by c; mutation times unknown."""
    import tskit
    tables = ts.dump_tables()
    tables.nodes.time = tables.nodes.time * c
    tables.mutations.time = np.full_like(tables.mutations.time, tskit.UNKNOWN_TIME)
    return tables.tree_sequence()


def scale_coords_ts(ts, c):
    """Sequence length, edge ends, site positions (and migrations, none here) multiplied by c."""
    import tskit
    tables = ts.dump_tables()
    tables.sequence_length = ts.sequence_length * c
    tables.edges.left = tables.edges.left * c
    tables.edges.right = tables.edges.right * c
    tables.sites.position = tables.sites.position * c
    tables.mutations.time = np.full_like(tables.mutations.time, tskit.UNKNOWN_TIME)
    return tables.tree_sequence()


def unknown_mut_times(ts):
    import tskit
    tables = ts.dump_tables()
    tables.mutations.time = np.full_like(tables.mutations.time, tskit.UNKNOWN_TIME)
    return tables.tree_sequence()


def scale_popsize(ps, c):
    if isinstance(ps, dict):
        out = dict(population_size=[float(x) * c for x in ps["population_size"]])
        if "time_breaks" in ps:
            out["time_breaks"] = [float(x) * c for x in ps["time_breaks"]]
        return out
    return float(ps) * c


def c06_kwargs(kw, c):
    """Option set of the C06 statement: mutation_rate / c, min_branch_length * c and, for the discrete
    methods, population_size (and epoch breaks) * c, eps * c, user timepoints * c.  Absolute-unit
    defaults (min_branch_length 1e-8, eps 1e-8) are made explicit before scaling."""
    out = dict(kw)
    out["mutation_rate"] = kw["mutation_rate"] / c
    out["min_branch_length"] = kw.get("min_branch_length", 1e-8) * c
    if kw["method"] != "variational_gamma":
        out["eps"] = kw.get("eps", 1e-8) * c
        if "population_size" in kw:
            out["population_size"] = scale_popsize(kw["population_size"], c)
        if "timepoints" in kw and not isinstance(kw["timepoints"], int):
            out["timepoints"] = [float(x) * c for x in kw["timepoints"]]
    return out


def c07_kwargs(kw, c):
    out = dict(kw)
    out["mutation_rate"] = kw["mutation_rate"] / c
    return out


def explicit_defaults(kw):
    """the base run uses the same explicit absolute-unit options as the scaled one"""
    out = dict(kw)
    out.setdefault("min_branch_length", 1e-8)
    if kw["method"] != "variational_gamma":
        out.setdefault("eps", 1e-8)
    return out


# ----------------------------------------------------------------------------- running date()

def run(ts, kw):
    """date() with our option dict (`timepoints` is turned into a prior grid built by the real code)."""
    import tsdate
    kw = dict(kw)
    method = kw.pop("method")
    tp = kw.pop("timepoints", None)
    if tp is not None and method != "variational_gamma":
        ps = kw.pop("population_size")
        dating.quiet()
        try:
            tpa = tp if isinstance(tp, int) else np.array(tp, dtype=float)
            if isinstance(ps, dict):
                ps = tsdate.demography.PopulationSizeHistory(**ps)
            pri = tsdate.build_prior_grid(ts, population_size=ps, timepoints=tpa,
                                          prior_distribution=kw.pop("prior_distribution", "lognorm"))
        except BaseException as e:  # noqa: BLE001
            if isinstance(e, (KeyboardInterrupt, MemoryError)):
                raise
            return dict(ok=False, out=None, exc=type(e).__name__, msg=str(e)[:300])
        kw["priors"] = pri
    else:
        kw.pop("prior_distribution", None)
    return dating.run_date(ts, method=method, **kw)


def outputs(out):
    """Observable outputs of the statement: node times, mutation times, mn/vr metadata."""
    d = dict(nodes_time=out.nodes_time.copy(), mutations_time=out.mutations_time.copy())
    for name, table, n in (("node", out.tables.nodes, out.num_nodes), ("mut", out.tables.mutations, out.num_mutations)):
        mn = np.full(n, np.nan)
        vr = np.full(n, np.nan)
        if table.metadata_schema.schema is not None and len(table.metadata) > 0:
            for i, row in enumerate(table):
                md = row.metadata
                if isinstance(md, dict):
                    mn[i] = md.get("mn", np.nan)
                    vr[i] = md.get("vr", np.nan)
        d[name + "_mn"] = mn
        d[name + "_vr"] = vr
    # mutations compared by (site position rank, node, derived state): tables.sort() may permute rows
    order = np.lexsort((out.mutations_node, out.mutations_site))
    d["mut_key"] = [(int(out.mutations_site[i]), int(out.mutations_node[i])) for i in order]
    for k in ("mutations_time", "mut_mn", "mut_vr"):
        d[k] = d[k][order]
    return d


def relerr(a, b):
    """max over entries of |a-b| / max(|a|,|b|); NaN pattern must agree (returns inf otherwise)."""
    a = np.asarray(a, dtype=float)
    b = np.asarray(b, dtype=float)
    if a.shape != b.shape:
        return float("inf")
    na, nb = np.isnan(a), np.isnan(b)
    if np.any(na != nb):
        return float("inf")
    a, b = a[~na], b[~nb]
    if a.size == 0:
        return 0.0
    den = np.maximum(np.abs(a), np.abs(b))
    with np.errstate(invalid="ignore", divide="ignore"):
        r = np.where(den > 0, np.abs(a - b) / den, 0.0)
    return float(np.max(r))


def compare(base, other, c_time, method):
    """other should be base with times * c_time, variances * c_time^2. Returns {field: relerr}."""
    errs = {}
    errs["nodes_time"] = relerr(base["nodes_time"] * c_time, other["nodes_time"])
    if base["mut_key"] != other["mut_key"]:
        errs["mutations_node"] = float("inf")
    errs["mutations_time"] = relerr(base["mutations_time"] * c_time, other["mutations_time"])
    errs["node_mn"] = relerr(base["node_mn"] * c_time, other["node_mn"])
    errs["node_vr"] = relerr(base["node_vr"] * c_time * c_time, other["node_vr"])
    errs["mut_mn"] = relerr(base["mut_mn"] * c_time, other["mut_mn"])
    errs["mut_vr"] = relerr(base["mut_vr"] * c_time * c_time, other["mut_vr"])
    return errs


def field_tol(field, method):
    t = tol_for(method)
    if field.endswith("_vr"):
        return t["vr"]
    if field.endswith("_mn"):
        return t["mn"]
    return t["time"]


def kw_jsonable(kw):
    out = {}
    for k, v in kw.items():
        if isinstance(v, float):
            out[k] = dict(hex=float(v).hex())
        elif isinstance(v, (list, tuple)) and v and isinstance(v[0], float):
            out[k] = dict(hexlist=[float(x).hex() for x in v])
        elif isinstance(v, dict):
            out[k] = dict(obj={kk: [float(x).hex() for x in vv] for kk, vv in v.items()})
        else:
            out[k] = v
    return out


def kw_from_jsonable(d):
    out = {}
    for k, v in d.items():
        if isinstance(v, dict) and "hex" in v:
            out[k] = float.fromhex(v["hex"])
        elif isinstance(v, dict) and "hexlist" in v:
            out[k] = [float.fromhex(x) for x in v["hexlist"]]
        elif isinstance(v, dict) and "obj" in v:
            out[k] = {kk: [float.fromhex(x) for x in vv] for kk, vv in v["obj"].items()}
        else:
            out[k] = v
    return out


# ----------------------------------------------------------------------------- option generators

def draw_options(rng, ts, info, method=None):
    """An option set (as our dict incl. `method`) accepted by the API, with enough structure to reach
    the absolute-unit parameters of the statement."""
    method = method or str(rng.choice(["variational_gamma", "inside_outside", "maximization"]))
    kw = dict(method=method, mutation_rate=float(info["mu"]))
    if rng.random() < 0.5:
        kw["min_branch_length"] = float(rng.choice([1e-8, 1e-6, 1e-3, 0.5]))
    if rng.random() < 0.3:
        kw["constr_iterations"] = int(rng.choice([0, 1, 10, 100]))
    if method == "variational_gamma":
        kw["max_iterations"] = int(rng.choice([1, 2, 5, 10, 25]))
        # F5: sparse inputs trip the rescaling assertion; keep the number of intervals small
        kw["rescaling_intervals"] = int(rng.choice([0, 1, 2, 3, 5]))
        if rng.random() < 0.3:
            kw["rescaling_iterations"] = int(rng.choice([1, 2, 5]))
        if rng.random() < 0.3:
            kw["match_segregating_sites"] = True
        if rng.random() < 0.2:
            kw["max_shape"] = float(rng.choice([2.0, 10.0, 100.0]))
        if rng.random() < 0.2:
            kw["regularise_roots"] = False
        if rng.random() < 0.2 and info.get("ploidy", 1) == 2:
            kw["singletons_phased"] = False
    else:
        r = rng.random()
        if r < 0.6:
            kw["population_size"] = float(info["Ne"])
        else:
            ne = float(info["Ne"])
            kw["population_size"] = dict(population_size=[ne, ne * float(rng.choice([0.2, 3.0])), ne * 0.7],
                                         time_breaks=[ne * 0.1, ne * 1.5])
        if rng.random() < 0.5:
            kw["probability_space"] = str(rng.choice(["linear", "logarithmic"]))
        if rng.random() < 0.4:
            kw["eps"] = float(rng.choice([1e-10, 1e-8, 1e-6, 1e-3]))
        r = rng.random()
        if r < 0.25:
            kw["timepoints"] = int(rng.choice([5, 10, 30]))
        elif r < 0.5:
            ne = float(info["Ne"])
            k = int(rng.choice([6, 12, 25]))
            kw["timepoints"] = [0.0] + sorted(float(x) for x in rng.uniform(0.01, 8, size=k) * ne)
        if "timepoints" in kw and rng.random() < 0.3:
            kw["prior_distribution"] = "gamma"
        if method == "inside_outside" and rng.random() < 0.2:
            kw["outside_standardize"] = False
        if method == "inside_outside" and rng.random() < 0.2:
            kw["ignore_oldest_root"] = True
    return kw


def draw_ts(rng, method):
    """A tree sequence with mutations; historical samples only for the variational method."""
    hist = 0.4 if method == "variational_gamma" else 0.0
    ploidy = 2 if (method == "variational_gamma" and rng.random() < 0.25) else 1
    for _ in range(20):
        ts, info = gen.gen_ts(rng, historical=hist, polytomy=0.15, ploidy=ploidy, n=int(rng.integers(3, 8)),
                              trees=int(rng.choice([1, 2, 3, 5, 8])), muts_per_edge=float(rng.choice([2, 4, 8])))
        if ts.num_mutations >= 5 and ts.num_edges > 0:
            return unknown_mut_times(ts), info
    return unknown_mut_times(ts), info
