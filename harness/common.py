"""
Shared plumbing for the tsdate verification checks (run with /venv/bin/python).

* environment: numba cache directory keyed by the hash of *all* tsdate sources
* Lean: translators -> lake build -> axiom audit; line-protocol driver runner
* float <-> hex, rationals
* result / violation records

Nothing here decides a property; see harness/main.py for the verdict logic.
"""

import hashlib
import json
import os
import re
import shutil
import struct
import subprocess
import sys
import time
from dataclasses import dataclass, field
from fractions import Fraction
from pathlib import Path

VERIF = Path(__file__).resolve().parent.parent
REPO = Path(os.environ.get("TSDATE_REPO", "/repo"))
LEAN_DIR = VERIF / "lean"
CACHE = VERIF / ".cache"

ALLOWED_AXIOMS = {"propext", "Classical.choice", "Quot.sound"}
FORBIDDEN = re.compile(
    r"\bsorry\b|\badmit\b|^\s*axiom\s|native_decide|bv_decide|implemented_by|\bunsafe\s|maxHeartbeats\s+0\b"
)


# ----------------------------------------------------------------------------- environment

def source_fingerprint():
    h = hashlib.sha256()
    for p in sorted((REPO / "tsdate").glob("*.py")):
        h.update(p.name.encode())
        h.update(p.read_bytes())
    return h.hexdigest()


def setup_env():
    """Must be called before `import tsdate`."""
    fp = source_fingerprint()
    base = CACHE / "numba"
    d = base / fp[:20]
    d.mkdir(parents=True, exist_ok=True)
    os.environ["TSDATE_ENABLE_NUMBA_CACHE"] = "1"
    os.environ["NUMBA_CACHE_DIR"] = str(d)
    os.environ.setdefault("TSDATE_VERIF", "1")
    # prune old fingerprints (seeded-change runs create new ones): only directories untouched for 12 hours, and
    # never the one in use; pruning by count evicted caches that concurrent runs were still using
    try:
        now = time.time()
        for x in base.iterdir():
            if x.is_dir() and x != d and now - x.stat().st_mtime > 12 * 3600:
                shutil.rmtree(x, ignore_errors=True)
        os.utime(d, None)
    except OSError:
        pass
    if str(REPO) not in sys.path:
        sys.path.insert(0, str(REPO))
    return fp


# ----------------------------------------------------------------------------- numbers

def f2h(x):
    x = float(x)
    if x != x:
        return "7ff8000000000000"
    return struct.pack(">d", x).hex()


def h2f(s):
    return struct.unpack(">d", bytes.fromhex(s))[0]


def f2q(x):
    n, d = float(x).as_integer_ratio()
    return f"{n}/{d}"


def q2frac(s):
    n, _, d = s.partition("/")
    return Fraction(int(n), int(d or 1))


def ulps(a, b):
    """distance in units in the last place between two finite doubles"""
    def key(x):
        (i,) = struct.unpack(">q", struct.pack(">d", x))
        return i if i >= 0 else -(i & 0x7FFFFFFFFFFFFFFF)
    return abs(key(a) - key(b))


# ----------------------------------------------------------------------------- Lean

class LeanError(Exception):
    pass


def _run(cmd, cwd=None, input=None, timeout=3600):
    return subprocess.run(cmd, cwd=cwd, input=input, capture_output=True, text=True, timeout=timeout)


def lake_build(modules, timeout=3600):
    """Build the given modules; returns (ok, log)."""
    r = _run(["lake", "build", *modules], cwd=LEAN_DIR, timeout=timeout)
    return r.returncode == 0, (r.stdout + r.stderr)


def strip_comments(src):
    # remove /- ... -/ (nested) and -- comments
    out, i, depth = [], 0, 0
    n = len(src)
    while i < n:
        if src.startswith("/-", i):
            depth += 1
            i += 2
        elif depth and src.startswith("-/", i):
            depth -= 1
            i += 2
        elif depth:
            if src[i] == "\n":
                out.append("\n")
            i += 1
        elif src.startswith("--", i):
            while i < n and src[i] != "\n":
                i += 1
        else:
            out.append(src[i])
            i += 1
    return "".join(out)


def module_path(mod):
    return LEAN_DIR / (mod.replace(".", "/") + ".lean")


def project_imports(mod, seen=None):
    """Transitive closure of imports that live in this project."""
    seen = set() if seen is None else seen
    if mod in seen:
        return seen
    p = module_path(mod)
    if not p.exists():
        return seen
    seen.add(mod)
    for m in re.findall(r"^\s*(?:public\s+)?import\s+([\w.]+)", strip_comments(p.read_text()), flags=re.M):
        if m.startswith("TsdateVerif"):
            project_imports(m, seen)
    return seen


def theorems_in(mod):
    """Fully qualified names of the theorems declared in a module (simple namespace tracking)."""
    src = strip_comments(module_path(mod).read_text())
    ns, names = [], []
    for line in src.splitlines():
        m = re.match(r"^\s*namespace\s+([\w.]+)", line)
        if m:
            ns.append(m.group(1))
            continue
        m = re.match(r"^\s*end\s+([\w.]+)\s*$", line)
        if m and ns and ns[-1] == m.group(1):
            ns.pop()
            continue
        m = re.match(r"^\s*(?:@\[[^\]]*\]\s*)?(?:private\s+|protected\s+)?theorem\s+([\w.'!?]+)", line)
        if m:
            names.append(".".join(ns + [m.group(1)]))
    return names


def forbidden_tokens(mods):
    hits = []
    for mod in sorted(mods):
        src = strip_comments(module_path(mod).read_text())
        for ln, line in enumerate(src.splitlines(), 1):
            if FORBIDDEN.search(line):
                hits.append(f"{mod}:{ln}: {line.strip()[:100]}")
    return hits


def audit_axioms(prop_id, mods, timeout=1800):
    """`#print axioms` for every theorem in mods. Returns dict name -> list of axioms (or None if missing)."""
    names = []
    for m in mods:
        names += theorems_in(m)
    d = LEAN_DIR / ".audit"
    d.mkdir(exist_ok=True)
    f = d / f"{prop_id}_{os.getpid()}.lean"
    body = "\n".join(f"import {m}" for m in mods) + "\n" + "\n".join(f"#print axioms {n}" for n in names) + "\n"
    f.write_text(body)
    try:
        r = _run(["lake", "env", "lean", str(f)], cwd=LEAN_DIR, timeout=timeout)
    finally:
        f.unlink(missing_ok=True)
    out = r.stdout + r.stderr
    res = {n: None for n in names}
    # join continuation lines (Lean wraps long axiom lists), then parse report by report: each report starts at
    # a line beginning with a quote.  (A single regex over the whole text mis-paired names when an axiom-free
    # theorem was directly followed by one with axioms.)
    joined = re.sub(r"\n[ \t]+", " ", out)
    for line in joined.splitlines():
        m = re.match(r"^'(.+)' depends on axioms: \[([^\]]*)\]\s*$", line)
        if m:
            res[m.group(1)] = [a.strip() for a in m.group(2).split(",") if a.strip()]
            continue
        m = re.match(r"^'(.+)' does not depend on any axioms\s*$", line)
        if m:
            res[m.group(1)] = []
    return res, out


def lean_driver(driver, text, timeout=3600):
    """Run Driver/<driver>.lean on the given input text; returns output lines."""
    r = _run(["lake", "env", "lean", "--run", f"Driver/{driver}.lean"], cwd=LEAN_DIR, input=text, timeout=timeout)
    if r.returncode != 0:
        raise LeanError(f"driver {driver} failed: {r.stderr[-2000:]} {r.stdout[-500:]}")
    return r.stdout.splitlines()


# ----------------------------------------------------------------------------- records

@dataclass
class Violation:
    kind: str                 # discriminating class, matched against known_findings.json
    what: str                 # one line, human readable
    replay: dict              # everything needed to re-run the failing case
    stage: str = "C"          # "B" correspondence, "C" property oracle on the implementation


@dataclass
class Result:
    evaluations: int = 0
    nontrivial: set = field(default_factory=set)   # distinct canonical keys of non-trivial cases
    rule: str = ""
    samples: list = field(default_factory=list)
    violations: list = field(default_factory=list)      # property fails on the implementation
    corr_failures: list = field(default_factory=list)   # model and implementation differ
    extra: dict = field(default_factory=dict)           # input distribution etc.
    exhaustive: bool = False

    def sample(self, x, limit=5):
        if len(self.samples) < limit:
            self.samples.append(x)


class Ctx:
    def __init__(self, prop_id, tier, seed, boost=1):
        self.prop_id = prop_id
        self.tier = tier
        self.seed = seed
        self.boost = boost          # >1 when stage A/B broke: search harder
        self.t0 = time.time()

    def n(self, quick, thorough):
        base = quick if self.tier == "quick" else thorough
        return int(base * self.boost)

    def rng(self, stream=0):
        import numpy as np
        return np.random.default_rng([self.seed, stream, int(self.prop_id[1:])])


def canon_key(obj):
    return hashlib.sha1(json.dumps(obj, sort_keys=True, default=str).encode()).hexdigest()[:16]
